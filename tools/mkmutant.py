#!/usr/bin/env python3
"""Create a mutant patch: mkmutant.py <property-id> <name> <description> (<file> <old> <new>)...
The replacement is CRLF-aware; the patch is produced by git diff in a scratch clone of /repo (outside /repo and /verif)."""
import os
import subprocess
import sys

SCRATCH = "/tmp/vf-mutgen"


def sh(*cmd, **kw):
    return subprocess.run(cmd, check=True, stdout=subprocess.PIPE, text=False, **kw).stdout


def main():
    pid, name, desc = sys.argv[1:4]
    triples = sys.argv[4:]
    assert len(triples) % 3 == 0 and triples
    if not os.path.isdir(SCRATCH):
        sh("git", "clone", "-q", "/repo", SCRATCH)
    sh("git", "-C", SCRATCH, "fetch", "-q", "origin")
    head = sh("git", "-C", "/repo", "rev-parse", "HEAD").decode().strip()
    sh("git", "-C", SCRATCH, "checkout", "-q", "--detach", head)
    sh("git", "-C", SCRATCH, "reset", "-q", "--hard", head)
    for i in range(0, len(triples), 3):
        f, old, new = triples[i:i + 3]
        path = os.path.join(SCRATCH, f)
        data = open(path, "rb").read()
        o, n = old.encode().decode("unicode_escape").encode(), new.encode().decode("unicode_escape").encode()
        if b"\r\n" in data:
            o, n = o.replace(b"\n", b"\r\n"), n.replace(b"\n", b"\r\n")
        if data.count(o) != 1:
            sys.exit("pattern occurs %d times in %s: %r" % (data.count(o), f, old))
        open(path, "wb").write(data.replace(o, n))
    diff = sh("git", "-C", SCRATCH, "diff")
    outdir = os.path.join("/verif/mutants", pid)
    os.makedirs(outdir, exist_ok=True)
    with open(os.path.join(outdir, name + ".patch"), "wb") as fh:
        fh.write(("# property %s\n# %s\n" % (pid, desc)).encode())
        fh.write(diff)
    sh("git", "-C", SCRATCH, "reset", "-q", "--hard", head)
    print("wrote", os.path.join(outdir, name + ".patch"))


if __name__ == "__main__":
    main()
