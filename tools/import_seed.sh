#!/bin/bash
# tools/import_seed.sh <property-id> <worktree> <name> [extra g++ flags for the demo]
# Copies the sub-agent's deliverables to /verif/seeded/<name>/, confirms them independently (tools/verify_seed.sh),
# writes meta.json, and removes the sub-agent's worktree with its build output.
set -u
ID=$1; W=$2; NAME=$3; shift 3; EXTRA="$*"
D=/verif/seeded/$NAME
mkdir -p "$D"
cp "$W/_seed/patch.diff" "$W/_seed/demo.cpp" "$D/" || exit 2
[ -f "$W/_seed/notes.md" ] && cp "$W/_seed/notes.md" "$D/notes.md"
OUT=$(/verif/tools/verify_seed.sh "$D" $EXTRA 2>&1); RC=$?
echo "$OUT"
python3 - "$ID" "$NAME" "$RC" "$EXTRA" <<PY
import json, sys, subprocess
pid, name, rc, extra = sys.argv[1:5]
out = """$OUT"""
meta = {
  "property": pid,
  "name": name,
  "origin": "written by an independent sub-agent that saw only the text of property %s and a scratch worktree of the library" % pid,
  "base_commit": subprocess.run(["git", "-C", "/repo", "rev-parse", "--short", "HEAD"], stdout=subprocess.PIPE, text=True).stdout.strip(),
  "confirmed": rc == "0",
  "confirmation_cmd": "tools/verify_seed.sh seeded/%s %s" % (name, extra),
  "confirmation_output": out.strip().splitlines(),
  "needs_to_manifest": "see notes.md",
  "checks_run": {}
}
json.dump(meta, open("/verif/seeded/%s/meta.json" % name, "w"), indent=1)
PY
git -C /repo worktree remove --force "$W" >/dev/null 2>&1; rm -rf "$W"
exit $RC
