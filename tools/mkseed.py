#!/usr/bin/env python3
"""tools/mkseed.py <property-id> <suffix>  ->  creates the scratch worktree /tmp/seed-<id><suffix> of /repo HEAD and the prompt
file /tmp/seed-prompt-<id><suffix>.txt for an independent sub-agent (property text + triggers used by earlier seeded changes
for this property; nothing else from /verif)."""
import glob, json, os, subprocess, sys
pid, suf = sys.argv[1], sys.argv[2]
name = pid + suf
wt = "/tmp/seed-" + name
prop = next(json.loads(l) for l in open("/verif/properties.jsonl") if json.loads(l)["id"] == pid)
earlier = []
for d in sorted(glob.glob("/verif/seeded/%s*" % pid)):
    try:
        m = json.load(open(d + "/meta.json"))
    except Exception:
        continue
    n = m.get("needs_to_manifest", "")
    if n and n != "see notes.md":
        earlier.append("- " + " ".join(n.split())[:260])
    else:
        earlier.append("- " + os.path.basename(d).split("-", 1)[1].replace("-", " "))
t = open("/verif/tools/seed_prompt_template.txt").read()
anch = prop.get("anchors", {})
anchors = ", ".join(anch.get("files", [])) + " ; mechanisms: " + "; ".join("%s (%s)" % (m.get("name"), m.get("where")) for m in anch.get("mechanism", []))
t = (t.replace("@WORKTREE@", wt).replace("@ID@", pid).replace("@TITLE@", prop["title"]).replace("@STATEMENT@", prop["statement"])
     .replace("@QUANT@", prop["quantifier"]["text"]).replace("@ANCHORS@", anchors).replace("@EARLIER@", "\n".join(earlier) or "- (none yet)"))
open("/tmp/seed-prompt-%s.txt" % name, "w").write(t)
if not os.path.isdir(wt):
    subprocess.run(["git", "-C", "/repo", "worktree", "add", "-q", "--detach", wt, "HEAD"], check=True)
print(wt, "/tmp/seed-prompt-%s.txt" % name, len(earlier), "earlier triggers")
