#!/bin/bash
# Independently confirm a seeded change: tools/verify_seed.sh <dir with patch.diff + demo.cpp> [extra g++ flags for the demo]
#  1. fresh scratch worktree of /repo HEAD (under /tmp), apply patch.diff, cmake build, full test suite must pass
#  2. demo built against the patched library must FAIL (non-zero exit)
#  3. patch reverted, library rebuilt, demo must PASS (exit 0)
# The worktree and its build output are removed afterwards.  Prints a one-line verdict per step; exit 0 iff all three hold.
set -u
SEED=$(readlink -f "$1"); shift
EXTRA="$*"
W=$(mktemp -d /tmp/vf-seedcheck-XXXXXX)
rmdir "$W"
git -C /repo worktree add -q --detach "$W" HEAD || exit 2
cleanup() { git -C /repo worktree remove --force "$W" >/dev/null 2>&1; rm -rf "$W"; }
trap cleanup EXIT
cd "$W" || exit 2
if ! git apply --whitespace=nowarn "$SEED/patch.diff"; then echo "STEP0 patch does not apply: FAIL"; exit 1; fi
echo "changed: $(git diff --stat | tail -1)"
cmake -G Ninja -B _build >/dev/null 2>&1
if ! cmake --build _build >"$W/build.log" 2>&1; then echo "STEP1 build with the change: FAIL"; tail -20 "$W/build.log"; exit 1; fi
T=$(_build/bin/test_asam_cmp 2>&1 | tail -3 | tr '\n' ' ')
if _build/bin/test_asam_cmp >/dev/null 2>&1 && ctest --test-dir _build >/dev/null 2>&1; then echo "STEP1 tests pass with the change: OK ($T)"; else echo "STEP1 tests with the change: FAIL ($T)"; exit 1; fi
if ! g++ -std=c++17 -O1 -I include $EXTRA "$SEED/demo.cpp" _build/bin/libasam_cmp.a -lpthread -o "$W/demo_patched" 2>"$W/demo.log"; then echo "STEP2 demo does not compile: FAIL"; cat "$W/demo.log" | head; exit 1; fi
timeout 300 "$W/demo_patched" >"$W/demo_patched.out" 2>&1; RC1=$?
if [ $RC1 -ne 0 ]; then echo "STEP2 demo fails with the change: OK (exit $RC1: $(tail -2 "$W/demo_patched.out" | tr '\n' ' ' | cut -c1-200))"; else echo "STEP2 demo passes although the change is applied: FAIL"; exit 1; fi
git checkout -q -- src include
cmake --build _build >"$W/build2.log" 2>&1 || { echo "STEP3 rebuild: FAIL"; exit 1; }
g++ -std=c++17 -O1 -I include $EXTRA "$SEED/demo.cpp" _build/bin/libasam_cmp.a -lpthread -o "$W/demo_clean" 2>/dev/null || { echo "STEP3 demo does not compile on the clean tree: FAIL"; exit 1; }
timeout 300 "$W/demo_clean" >"$W/demo_clean.out" 2>&1; RC2=$?
if [ $RC2 -eq 0 ]; then echo "STEP3 demo passes without the change: OK"; else echo "STEP3 demo fails on the unchanged library (exit $RC2): FAIL"; tail -3 "$W/demo_clean.out"; exit 1; fi
echo "SEED CONFIRMED"
exit 0
