"""Build cache: library variants compiled straight from /repo/src, drivers linked against them."""
import concurrent.futures
import fcntl
import glob
import hashlib
import os
import shutil
import subprocess
import sys

VERIF = os.path.dirname(os.path.dirname(os.path.abspath(__file__)))
REPO = os.environ.get("VERIF_REPO", "/repo")
BUILD = os.path.join(VERIF, "build")
if REPO != "/repo":
    # scratch trees (mutants, seeded changes) get their own cache so that the real one stays warm
    BUILD = os.path.join(VERIF, "build", "alt", hashlib.sha256(REPO.encode()).hexdigest()[:10])
HARNESS = os.path.join(VERIF, "harness")

GUARD = "-DASAM_CMP_LIB_VERIF"
SAN = ["-fsanitize=address,undefined", "-fno-sanitize=vptr,alignment,nonnull-attribute",
       "-fno-sanitize-recover=undefined", "-fno-omit-frame-pointer"]

VARIANTS = {
    # name: (compiler, flags for library objects, extra flags when linking a driver)
    "asan": ("clang++", ["-std=gnu++17", "-g", "-O1"] + SAN, SAN),
    "fuzz": ("clang++", ["-std=gnu++17", "-g", "-O1", "-fsanitize=fuzzer-no-link"] + SAN, ["-fsanitize=fuzzer"] + SAN),
    "tsan": ("clang++", ["-std=gnu++17", "-g", "-O1", "-fsanitize=thread"], ["-fsanitize=thread"]),
    "plain": ("g++", ["-std=gnu++17", "-g", "-O1"], []),
}


def _hash_files(paths):
    h = hashlib.sha256()
    for p in sorted(paths):
        h.update(p.encode())
        with open(p, "rb") as f:
            h.update(f.read())
    return h.hexdigest()[:16]


def repo_hash():
    files = glob.glob(os.path.join(REPO, "src", "*.cpp")) + glob.glob(os.path.join(REPO, "include", "**", "*.h"), recursive=True)
    return _hash_files(files)


class Lock:
    def __init__(self, name="build"):
        os.makedirs(BUILD, exist_ok=True)
        self.path = os.path.join(BUILD, ".%s.lock" % name)

    def __enter__(self):
        self.f = open(self.path, "w")
        fcntl.flock(self.f, fcntl.LOCK_EX)
        return self

    def __exit__(self, *a):
        fcntl.flock(self.f, fcntl.LOCK_UN)
        self.f.close()


def _run(cmd, what):
    r = subprocess.run(cmd, stdout=subprocess.PIPE, stderr=subprocess.STDOUT, text=True)
    if r.returncode != 0:
        sys.stderr.write("BUILD-ERROR while %s\n$ %s\n%s\n" % (what, " ".join(cmd), r.stdout[-6000:]))
        raise SystemExit(3)
    return r.stdout


def build_lib(variant):
    """Compile all library sources for a variant; returns the path of the static archive."""
    comp, flags, _ = VARIANTS[variant]
    rh = repo_hash()
    out = os.path.join(BUILD, "lib-%s-%s" % (variant, rh))
    archive = os.path.join(out, "libasam_cmp.a")
    if os.path.exists(archive):
        return archive
    with Lock("lib-" + variant):
        if os.path.exists(archive):
            return archive
        # drop stale variants of the same kind (disk is limited)
        for old in glob.glob(os.path.join(BUILD, "lib-%s-*" % variant)):
            if old != out:
                shutil.rmtree(old, ignore_errors=True)
        tmp = out + ".tmp%d" % os.getpid()
        shutil.rmtree(tmp, ignore_errors=True)
        os.makedirs(tmp)
        srcs = sorted(glob.glob(os.path.join(REPO, "src", "*.cpp")))
        jobs = []
        for s in srcs:
            o = os.path.join(tmp, os.path.basename(s)[:-4] + ".o")
            jobs.append(([comp] + flags + [GUARD, "-I" + os.path.join(REPO, "include"), "-c", s, "-o", o], o))
        with concurrent.futures.ThreadPoolExecutor(max_workers=16) as ex:
            list(ex.map(lambda j: _run(j[0], "compiling library (%s)" % variant), jobs))
        _run(["ar", "rcs", os.path.join(tmp, "libasam_cmp.a")] + [j[1] for j in jobs], "archiving")
        shutil.rmtree(out, ignore_errors=True)
        os.rename(tmp, out)
    return archive


def driver_hash(src_rel):
    files = [os.path.join(HARNESS, src_rel)]
    files += glob.glob(os.path.join(HARNESS, os.path.dirname(src_rel), "*.h"))
    for sub in ("common", "oracle"):
        files += [p for p in glob.glob(os.path.join(HARNESS, sub, "*")) if os.path.isfile(p)]
    return _hash_files(files)


def build_driver(name, variant, src_rel, extra_flags=(), extra_libs=("-lrapidcheck",)):
    """Build harness/<src_rel> against the given library variant; returns the binary path."""
    comp, flags, linkflags = VARIANTS[variant]
    archive = build_lib(variant)
    outdir = os.path.join(BUILD, "bin")
    prefix = "%s-%s-" % (name, variant)
    binary = os.path.join(outdir, prefix + "%s-%s" % (repo_hash(), driver_hash(src_rel)))
    if os.path.exists(binary):
        return binary
    with Lock("bin-" + name + "-" + variant):
        if os.path.exists(binary):
            return binary
        os.makedirs(outdir, exist_ok=True)
        for old in glob.glob(os.path.join(outdir, prefix + "*")):
            try:
                os.remove(old)
            except OSError:
                pass
        tmp = binary + ".tmp%d" % os.getpid()
        base_flags = [f for f in flags if f != "-fsanitize=fuzzer-no-link"]
        cmd = [comp] + base_flags + list(linkflags) + list(extra_flags) + [
            GUARD, "-I" + os.path.join(REPO, "include"), "-I" + HARNESS, os.path.join(HARNESS, src_rel), archive,
            "-o", tmp] + list(extra_libs) + ["-lpthread"]
        seen, dedup = set(), []
        for c in cmd:
            if c.startswith("-f") and c in seen:
                continue
            seen.add(c)
            dedup.append(c)
        _run(dedup, "building driver %s (%s)" % (name, variant))
        os.rename(tmp, binary)
    return binary
