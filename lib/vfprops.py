"""Property table: which stages decide which property, with their budgets per tier."""

COMMON_ASSUMPTIONS = [
    "trusted base: the independent oracle library under harness/oracle (own big-endian codec, frame walker, reference models)",
    "UBSan checks vptr, alignment and nonnull-attribute are disabled (the library's down-cast idiom, packed wire structs, "
    "memcpy(dst, nullptr, 0)); every other ASan/UBSan check is fatal",
    "generated-input search never establishes absence of violations outside the explored cases",
]


def pbt(name, driver, quick, thorough, mode="run", variant="asan", **kw):
    d = {"kind": "pbt", "name": name, "driver": driver, "src": "props/%s.cpp" % driver, "mode": mode, "variant": variant,
         "quick": quick, "thorough": thorough}
    d.update(kw)
    return d


CGF_FLAGS = ("-DVF_CGF", "-Dmain=vf_driver_main")


def cgf(name, driver, quick, thorough, **kw):
    """coverage-guided stage: the rapidcheck driver's own translation unit built as a libFuzzer target (DESIGN.md sec. 3.7)"""
    src = "props/%s.cpp" % driver
    d = {"kind": "cgf", "name": name, "driver": driver, "src": src, "quick": quick, "thorough": thorough,
         "builds": [("cgf_" + driver[4:], "fuzz", src, CGF_FLAGS, ("-lrapidcheck",)), (driver, "asan", src, (), ("-lrapidcheck",))]}
    d.update(kw)
    return d


def fuzz(name, driver, quick, thorough, **kw):
    d = {"kind": "fuzz", "name": name, "driver": driver, "src": "fuzz/%s.cpp" % driver, "quick": quick, "thorough": thorough}
    d.update(kw)
    return d


PROPS = {}
NOT_CLAIMED = {}
HOOK_COMMITS = ["bae4130"]
ENGINES = [
    {"name": "rapidcheck drivers", "path": "/verif/harness/props", "kind_free_text": "property-based testing: one C++ driver per "
     "property (generator + oracle + replay mode), sharded by ./check"},
    {"name": "coverage-guided mode of the rapidcheck drivers", "path": "/verif/harness/common/pbt.h", "kind_free_text": "coverage-guided "
     "fuzzing: the same driver translation units built as libFuzzer targets (-DVF_CGF); binary image of the case struct as input, "
     "structural custom mutator, per-property normalisation into the input domain, same oracle (DESIGN.md sec. 3.7)"},
    {"name": "libFuzzer targets", "path": "/verif/harness/fuzz", "kind_free_text": "coverage-guided fuzzing: fuzz_decode (C02, decoder "
     "histories with the ownership / bound oracle) and fuzz_views (C03, accessor views of validator-accepted payloads)"},
]
NOTES = ("All checks: ./check <ID> --tier quick|thorough; VERIF_SEED selects the generator seeds. Saved failing cases are plain "
         "text files re-run with ./check <ID> --replay <file> (no generator library involved). known_findings.txt lists "
         "fixed defects (regression replays under replays/<ID>/).")

PROPS["C01"] = {
    "level": "exploration",
    "technique": "property-based testing (rapidcheck): encode/decode round trip against getter snapshots of the source packets; plus coverage-guided structure-aware fuzzing (libFuzzer driving the same case struct and oracle)",
    "rule": "cases = generated batches of 1..12 (thorough ..40) packet recipes of all payload kinds x DataContext{min,max} (max 25..65559 and, rarely, up to 300000) x every encode entry point x "
            "encoder ids, half of them preceded by 1..3 earlier encode calls on the same encoder object (one in eight of them ended by the caller's iterator throwing); a case is non-trivial when the batch needs segmentation, or aggregates >=2 packets into one frame, "
            "or mixes message types, or has a payload length within +-2 of the fit boundary; distinct = distinct "
            "serialized cases (64-bit hash)"
            " One case in sixteen starts with 65520..65536 (or twice that) frames emitted before, one in eight re-sends the very Packet objects after an earlier encode with single flag bits changed through setCommonFlag only; a quarter feed the decoder an unfinished earlier message first. A coverage-guided stage (libFuzzer on the binary image of the same case struct, normalised into this domain) explores the same space.",
    "assumptions": COMMON_ASSUMPTIONS + ["typed payloads in the batch are well-formed by the oracle's own validators"],
    "level_text": "Generated-input search: thousands of generated batches x configurations are encoded, decoded by a fresh "
                  "decoder and compared field by field with getter snapshots of the source packets; failures shrink to a "
                  "minimal replay file. Exploration is the right level for a property over an unbounded input space.",
    "level_note": "Trusted: the harness's recipe builders and snapshot comparison, ASan/UBSan. Only the fields the statement "
                  "names are compared.",
    "stages": [
        pbt("roundtrip", "pbt_C01", quick={"cases": 3000, "size": 100, "shards": 8},
            thorough={"cases": 20000, "size": 200, "shards": 16}),
        cgf("coverage_guided", "pbt_C01", quick={"runs": 5000, "workers": 8}, thorough={"runs": 120000, "workers": 16}),
    ],
}

PROPS["C07"] = {
    "level": "exploration",
    "technique": "property-based testing (rapidcheck): independent frame walker + byte accounting over generated batches/configurations; plus coverage-guided structure-aware fuzzing (libFuzzer driving the same case struct and oracle)",
    "rule": "cases = generated batches of 0..12 (thorough ..40) packet recipes (one packet in six carries the errorInPayload flag) x DataContext{min,max}, half of them preceded by 1..3 "
            "earlier encode calls (other frame sizes, versions, types) on the same encoder object; non-trivial when the batch "
            "segments, aggregates, mixes message types, has a length within +-2 of the fit boundary, pads a frame up to min, or "
            "is the empty batch; distinct = distinct serialized cases"
            " One case in sixteen starts with about 65536 frames emitted before, one in eight re-sends the same Packet objects with single flag bits changed. A coverage-guided stage (libFuzzer on the binary image of the same case struct, normalised into this domain) explores the same space.",
    "assumptions": COMMON_ASSUMPTIONS,
    "level_text": "Generated-input search with an independent parser of the emitted frames: size bounds, tiling by declared "
                  "lengths, zero padding only up to min, every payload byte exactly once and in order, empty batch -> no frames.",
    "level_note": "Trusted: harness/oracle/wire.h message-header layout. Padding is recognised as the zero tail after the last "
                  "message whose payload-type byte is non-zero.",
    "stages": [
        pbt("frame_walker", "pbt_C07", quick={"cases": 3000, "size": 100, "shards": 8},
            thorough={"cases": 20000, "size": 200, "shards": 16}),
        cgf("coverage_guided", "pbt_C07", quick={"runs": 5000, "workers": 8}, thorough={"runs": 120000, "workers": 16}),
    ],
}

PROPS["C08"] = {
    "level": "exploration",
    "technique": "property-based testing (rapidcheck): emitted layout compared with a reference aggregation/segmentation model; plus coverage-guided structure-aware fuzzing (libFuzzer driving the same case struct and oracle)",
    "rule": "cases = generated batches x DataContext (half of them after 1..3 earlier encode calls on the same encoder), lengths aimed at fit/no-fit boundaries of the empty and of the current "
            "frame (weight 10/17); one case in six goes beyond the C07 domain with zero-length-payload packets (placed like a 16-byte message that is not written); non-trivial when a length is within +-2 of such a boundary, the batch changes message type, "
            "or a packet follows a last segment; distinct = distinct serialized cases"
            " One case in sixteen starts with about 65536 frames emitted before (counter wrap), one in eight re-sends the same Packet objects with single flag bits changed. A coverage-guided stage (libFuzzer on the binary image of the same case struct) explores the same space.",
    "assumptions": COMMON_ASSUMPTIONS + ["the property pins the layout uniquely, so equality with the reference model is not "
                                         "stronger than the statement; message-less frames are ignored here (C07)"],
    "level_text": "Generated-input search against a reference layout model written from the statement (segment iff the packet "
                  "does not fit an empty frame; segments alone, consecutive, full; append iff fits, same type, no segment).",
    "level_note": "Trusted: harness/oracle/model.h referenceLayout.",
    "stages": [
        pbt("layout_model", "pbt_C08", quick={"cases": 3000, "size": 100, "shards": 8},
            thorough={"cases": 20000, "size": 200, "shards": 16}),
        cgf("coverage_guided", "pbt_C08", quick={"runs": 5000, "workers": 8}, thorough={"runs": 120000, "workers": 16}),
    ],
}

PROPS["C09"] = {
    "level": "exploration",
    "technique": "stateful property-based testing (rapidcheck): generated operation sequences on one Encoder against a counter/identity model; plus coverage-guided structure-aware fuzzing (libFuzzer driving the same case struct and oracle)",
    "rule": "cases = sequences of 1..8 (thorough ..14) operations {setDeviceId, setStreamId (a third of them re-apply the value "
            "already configured), restart, encode via the three overloads (one call in ten with an empty batch; a third of the batches hold packets with a zero-length payload, which open frames without messages; one in eight a packet of message type 0), encode 20000..33000 one-byte packets with max=25}; non-trivial when the 16-bit counter wraps, or an id "
            "change/restart after emitted frames is followed by another encode; distinct = distinct serialized sequences"
            " A coverage-guided stage (libFuzzer on the binary image of the operation sequence, normalised into this domain) explores the same space.",
    "assumptions": COMMON_ASSUMPTIONS,
    "level_text": "Model-based search over operation histories: every emitted frame header and getSequenceCounter() are compared "
                  "with a three-variable model after every operation, including histories that wrap the counter.",
    "level_note": "Trusted: CMP header layout in harness/oracle/wire.h.",
    "stages": [
        pbt("op_sequences", "pbt_C09", quick={"cases": 400, "size": 100, "shards": 8},
            thorough={"cases": 5000, "size": 200, "shards": 16}),
        cgf("coverage_guided", "pbt_C09", quick={"runs": 1000, "workers": 8}, thorough={"runs": 30000, "workers": 16}),
    ],
}

PROPS["C10"] = {
    "level": "exploration",
    "technique": "metamorphic property-based testing (rapidcheck): encoder with generated history vs fresh encoder on the same final batch; plus coverage-guided structure-aware fuzzing (libFuzzer driving the same case struct and oracle)",
    "rule": "cases = (history of 0..4 (thorough ..6) encode calls incl. empty batches, zero-length-payload packets and calls ended part-way by the caller's iterator throwing; one case in twelve starts with 65515..65536 frames so that the final batch straddles the counter wrap; half of the cases encode every call from one pool of Packet objects refilled in place; a quarter run the history calls under other device / stream ids set through the setters (both, only the stream id, only the device id); final batch + context), final batch biased to "
            "continue the history's last message type and to need segmentation; non-trivial when the history is non-empty and the "
            "final batch segments or mixes message types; distinct = distinct serialized cases"
            " One case in twelve repeats the last history call 125..129 or 253..257 times and continues with the first call's message type under another frame size. A coverage-guided stage (libFuzzer on the binary image of the same case struct) explores the same space."
            " The id modes also include: ids changed (both setters) only right before the call under test, and restart() right before it; an exception from the call under test is a failure.",
    "assumptions": COMMON_ASSUMPTIONS + ["differential oracle: the library on a fresh object is the reference, as the property states"],
    "level_text": "Metamorphic search: frames of the n-th call must equal a fresh encoder's frames byte for byte outside the "
                  "sequence counter, with a constant counter offset.",
    "level_note": "The oracle is the library itself on a fresh object (the relation the property states).",
    "stages": [
        pbt("history_vs_fresh", "pbt_C10", quick={"cases": 2400, "size": 100, "shards": 8},
            thorough={"cases": 60000, "size": 200, "shards": 16}),
        cgf("coverage_guided", "pbt_C10", quick={"runs": 2000, "workers": 8}, thorough={"runs": 120000, "workers": 16}),
    ],
}

PROPS["C05"] = {
    "level": "exploration",
    "technique": "model-based property-based testing (rapidcheck) + coverage-guided structure-aware fuzzing (libFuzzer on the same case struct): generated multi-endpoint segment scripts and interleavings against a reference reassembler",
    "rule": "cases = 1..4 endpoint scripts (unsegmented frames and messages of 2..12 (thorough ..40) segments of 0..200 (..1500) "
            "declared bytes, start counters around the 16-bit wrap, optional non-message trailing bytes after a segment; 1/25 of the "
            "segmented messages have a reassembled total at / just below 65535 or around 2^15, 1/60 consist of 255..700 segments of "
            "0..2 bytes) merged by a generated schedule; one case in ten has an idle gap of 17..5000 frames of a foreign endpoint inside the first open message; a coverage-guided stage (libFuzzer on the binary image of the same case struct, structural mutator, normalised into this domain) explores the same space from the saved replays, generated samples and an empty corpus; non-trivial when a segmented message is delivered AND the history has a context switch to "
            "another endpoint inside an open message, a counter wrap inside a message, trailing bytes, or a zero-length segment; "
            "distinct = distinct serialized cases"
            " One case in twenty runs on a long-lived decoder that has already delivered 1 / 2 / 4 MiB of segmented traffic."
            " In one case in six the decoder is copied after some frame and the copy receives every later frame too; it must deliver what the reference model says."
            " In one case in twenty 60..1030 further endpoints on ONE stream id have a two-segment message in flight during the whole script (all must be delivered); start counters also lie next to 0x7FFF -> 0x8000.",
    "assumptions": COMMON_ASSUMPTIONS + ["expected deliveries are derived twice (from the script and from the byte-level reference "
                                         "reassembler); a disagreement between the two aborts as HARNESS-ERROR"],
    "level_text": "Model-based generated-input search: after every decode call the delivered packets must equal the reference "
                  "model's (nothing before the last segment, exactly one packet at it, concatenation of declared bytes, first "
                  "segment's header fields).",
    "level_note": "Trusted: harness/oracle/model.h Reassembler (semantics taken from the property statements).",
    "stages": [
        pbt("interleavings", "pbt_C05", quick={"cases": 4500, "size": 100, "shards": 8},
            thorough={"cases": 20000, "size": 200, "shards": 16}),
        cgf("coverage_guided", "pbt_C05", quick={"runs": 6000, "workers": 8}, thorough={"runs": 120000, "workers": 16}),
    ],
}

PROPS["C17"] = {
    "level": "exploration",
    "technique": "stateful property-based testing (rapidcheck) + bounded exhaustive enumeration: pending-reassembly table (hook) vs reference reassembler after every frame; plus coverage-guided structure-aware fuzzing (libFuzzer driving the same case struct and oracle)",
    "rule": "cases = frame histories over up to 4 endpoints from the alphabet {unsegmented, first, matching/mismatching/orphan "
            "continuation, invalid message, TECMP, short buffer, header-only}: exhaustively all sequences up to length 3 (thorough 4) "
            "over 22 symbols on two endpoints, random histories up to 60 (thorough 200) frames (one in 12 with segments of 20000..65535 bytes, accumulating beyond 65535), long procedural runs (30k / 250k "
            "frames, 6 or 600 endpoints); every history is followed by closing traffic; non-trivial when an abort / supersede / "
            "orphan / completion happens while another endpoint is pending; distinct = distinct serialized histories"
            " One history in twelve starts with 60..1030 endpoints that all have a message in progress; one in five repeats 1..3 frames a few positions later.",
    "assumptions": COMMON_ASSUMPTIONS + ["Decoder::verifPending() (guarded hook) reports the real table",
                                         "after an 8-byte header-only frame that endpoint's membership is not asserted until its next frame "
                                         "with a message (the statement is silent); the byte bound is still checked"],
    "level_text": "Model-based search over frame histories, exhaustive up to a stated bound: after every decode call the set of "
                  "pending endpoints equals the reference model's open set, buffered bytes never exceed the received segment bytes, "
                  "and closing traffic leaves the table empty.",
    "level_note": "Needs the read-only hook Decoder::verifPending(); trusted: reference reassembler.",
    "stages": [
        pbt("bounded_exhaustive", "pbt_C17", mode="enum", quick={}, thorough={"timeout": 7200}),
        pbt("random_histories", "pbt_C17", quick={"cases": 4500, "size": 100, "shards": 8},
            thorough={"cases": 10000, "size": 200, "shards": 16}),
        cgf("coverage_guided", "pbt_C17", quick={"runs": 3000, "workers": 8}, thorough={"runs": 120000, "workers": 16}),
    ],
}

PROPS["C18"] = {
    "level": "exploration",
    "technique": "metamorphic property-based testing (rapidcheck): full frame history vs its projection onto each endpoint on a fresh decoder; plus coverage-guided structure-aware fuzzing (libFuzzer driving the same case struct and oracle)",
    "rule": "cases = generated histories of up to 50 (thorough 120) frames over 2..4 endpoints incl. raw garbage, mixed frames, TECMP, "
            "short buffers, header-only frames; non-trivial when >=2 endpoints occur and a reassembled message is delivered whose "
            "segments were separated by foreign frames (other endpoints, TECMP, short buffers); distinct = distinct serialized histories"
            " One history in twelve starts with 60..1030 endpoints that all have a message in progress; one in five repeats 1..3 frames a few positions later. A coverage-guided stage (libFuzzer on the binary image of the frame history, with a domain-aware mutation that adds the continuation / copy / neighbour of an existing frame) explores the same space.",
    "assumptions": COMMON_ASSUMPTIONS + ["the oracle is the library itself on the projected input, so the check demands determinism + isolation only"],
    "level_text": "Metamorphic generated-input search: per endpoint, the packets delivered inside the full history must equal, frame by "
                  "frame, those delivered when only that endpoint's frames are fed to a fresh decoder; every packet carries its frame's ids.",
    "level_note": "No reference model; relation stated by the property.",
    "stages": [
        pbt("projection", "pbt_C18", quick={"cases": 4500, "size": 100, "shards": 8},
            thorough={"cases": 20000, "size": 200, "shards": 16}),
        cgf("coverage_guided", "pbt_C18", quick={"runs": 8000, "workers": 8}, thorough={"runs": 120000, "workers": 16}),
    ],
}

PROPS["C06"] = {
    "level": "fault_enumeration",
    "technique": "fault-injection property-based testing (rapidcheck) + exhaustive single/double fault enumeration on small streams; safety + bounded-recovery oracle",
    "rule": "cases = (base stream of 1..3 endpoints (plain ids, or a base endpoint plus endpoints a key / hash / comparison could confuse with it) x 3..8 (thorough ..12) messages, unsegmented or 2..5 segments (one segmented message in sixteen with a total of 65500..65535 bytes, around 2^15, or anywhere up to 65535), frames from the "
            "independent segmenter (3/4) or from the library's Encoder (1/4); fault sequence of 1..3 (thorough ..6) of drop / duplicate / "
            "swap / move / corrupt-version / corrupt-message-type); plus exhaustively every single fault at every position of 40 "
            "(thorough 120) fixed base streams of <=12 frames (thorough: every pair on the first 14 of them); non-trivial when a fault hits a frame "
            "of a segmented message AND a complete message is delivered afterwards on that endpoint; distinct = distinct serialized cases"
            " A third of the senders pad short frames up to a minimum frame size (40..100 bytes); one stream in ten has a chatty endpoint (30..1100 unsegmented frames of it between two consecutive frames of the others)."
            " Start counters also lie next to 0x7FFF -> 0x8000.",
    "assumptions": COMMON_ASSUMPTIONS + ["payload bytes are unique per sent packet (packet id in the first bytes), so any mixture, hole or "
                                         "repetition matches no sent packet",
                                         "for a message one of whose frames had its version / message type corrupted only the payload bytes are "
                                         "compared (two corruptions can rewrite a message consistently)"],
    "level_text": "Fault enumeration: all single faults (and all pairs, thorough) at every position of small streams, and generated fault "
                  "sequences on larger ones. Safety: every delivered packet is byte-identical to a sent one with its header fields; "
                  "recovery: a message whose frames arrive complete, in order, uncorrupted and uninterrupted on its endpoint is delivered "
                  "when its last frame arrives.",
    "level_note": "Depends on the decoder only for the oracle-built streams; encoder-built streams are used only if they round-trip unfaulted.",
    "stages": [
        pbt("exhaustive_faults", "pbt_C06", mode="enum", quick={}, thorough={"timeout": 14400}),
        pbt("random_faults", "pbt_C06", quick={"cases": 9000, "size": 100, "shards": 8},
            thorough={"cases": 100000, "size": 200, "shards": 16}),
    ],
}

PROPS["C04"] = {
    "level": "exploration",
    "technique": "property-based testing (rapidcheck): decoder output vs an independent reference parse (frame walker + three-valued payload validators); plus coverage-guided structure-aware fuzzing (libFuzzer driving the same case struct and oracle)",
    "rule": "cases = (optional prior frame history, CMP frame of any header message type incl. 0 with 0..5 (thorough ..8) unsegmented messages of every payload kind in the "
            "classes well-formed / inner length beyond the payload / shorter than its header / bus-error flag / slack, then truncated at "
            "any offset or zero-padded 1..64 bytes; one case in twelve is a frame of more than 64 KiB holding 2..5 messages of tens of thousands of bytes, one in twelve holds a message of 65400..65535 bytes); non-trivial when at least one packet is returned and the frame holds >=2 payload "
            "kinds, or truncation removes messages, or a prior history exists, or a must-be-invalid payload is present; distinct = "
            "distinct serialized cases"
            " A coverage-guided stage (libFuzzer on the binary image of the same case struct) explores the same space.",
    "assumptions": COMMON_ASSUMPTIONS + ["three-valued validators: outcomes the statement does not pin (analog sample type 2/3, interface status "
                                         "byte > 2, CAN error position without flags, Ethernet txPortDown / shorter-than-64 / truncated flags, "
                                         "LIN error flags, slack after the data, message type 0) are don't-care; if such a packet is returned "
                                         "valid its type and bytes must still equal the wire"],
    "level_text": "Generated-input search where expected values come from an independent big-endian parse of the same bytes, so symmetric "
                  "endianness / offset errors in the library's accessors are visible; count and order of packets, every header field, "
                  "validity and bytes are compared.",
    "level_note": "Trusted: harness/oracle/wire.h layouts, model.h walkFrame and judgePayload.",
    "stages": [
        pbt("reference_parse", "pbt_C04", quick={"cases": 6000, "size": 100, "shards": 8},
            thorough={"cases": 150000, "size": 200, "shards": 16}),
        cgf("coverage_guided", "pbt_C04", quick={"runs": 15000, "workers": 8}, thorough={"runs": 120000, "workers": 16}),
    ],
}

PROPS["C03"] = {
    "level": "exploration",
    "technique": "bounded exhaustive enumeration + property-based testing (rapidcheck) + coverage-guided fuzzing (libFuzzer) of validators and accessors under ASan with an in-bounds view predicate",
    "rule": "cases = (typed payload class, buffer size, background zero / ones / pseudo-random / pseudo-random without any zero byte, inner length field values (capture-module: also all prefixes behind string k >= 0x0101 with an exact-size buffer), path: class validator+constructor / "
            "message buffer -> Packet constructor / frame -> Decoder / two segments -> Decoder reassembly / TECMP message -> Decoder::decode -> converted packet (CAN, CAN-FD, LIN data of every length 0..255)); exhaustive over every size 0..header+8 and every inner length "
            "value 0..rest+2 plus boundary values, random beyond; non-trivial when the buffer is accepted by validation AND has an inner "
            "length > 0 or a size within 8 bytes of the header size; distinct = distinct serialized cases"
            " On the class-validator path the object is built in static storage (placement new) that held, when the validator accepts it, an object built from a sibling buffer of the same size with the inner lengths rotated / halved.",
    "assumptions": COMMON_ASSUMPTIONS + ["one-directional on purpose: rejection by a validator is always acceptable here (C04/C13 cover what must be accepted)",
                                         "buffers are exactly-sized heap blocks, freed before the accessors run, so ASan sees any read outside them"],
    "level_text": "Exhaustive enumeration of the neighbourhood of every header size and every inner length value, plus generated and "
                  "coverage-guided inputs: every const accessor is called under ASan and every pointer/length view must lie inside the "
                  "payload's own bytes; the same through Packet construction from accepted message buffers and through Decoder::decode.",
    "level_note": "Trusted: ASan/UBSan, the view predicate in harness/common/views.h.",
    "stages": [
        pbt("bounded_exhaustive", "pbt_C03", mode="enum", quick={}, thorough={"timeout": 7200}),
        pbt("random_buffers", "pbt_C03", quick={"cases": 15000, "size": 100, "shards": 8},
            thorough={"cases": 100000, "size": 200, "shards": 16}),
        fuzz("libfuzzer_views", "fuzz_views", quick={"workers": 4, "runs": 300000, "max_len": 200, "max_len_big": 1200},
             thorough={"workers": 16, "runs": 5000000, "max_len": 400, "max_len_big": 65535, "timeout": 14400}),
    ],
}

PROPS["C15"] = {
    "level": "exploration",
    "technique": "property-based testing (rapidcheck) + deterministic truncation / type / length sweeps against an independent TECMP parse with MUST / NONE / EITHER expectations; plus coverage-guided structure-aware fuzzing (libFuzzer driving the same case struct and oracle)",
    "rule": "cases = TECMP frames from independent builders: arbitrary header fields, message type over all 256 values, data type over "
            "all 65536 (thorough) values, CAN / CAN-FD (0..64 data bytes, optional CRC / trailer), LIN, capture-module status, bus status "
            "(0..40 entries) in consistent form and with inner length beyond the buffer, cut at every offset, payload length 0 / too "
            "large; non-trivial = a MUST case with data length > 0 or >= 1 status packet, or a NONE case of an unsupported kind / not "
            "fitting inner length with a non-empty payload; distinct = distinct serialized frames"
            " One bus-status message in six has an entry that repeats the interface id (and messages total, and all fields) of the entry before it. A coverage-guided stage (libFuzzer on the binary image of the frame history; the reference parse judges the built bytes) explores the same space."
            " Every frame of a case is also decoded by one decoder object shared by the whole case, whose packets must equal a fresh decoder's; a quarter of the later frames carry the device id and counter of the frame before them.",
    "assumptions": COMMON_ASSUMPTIONS + ["EITHER (not asserted): status messages with a non-zero data type field, inner lengths that fit the buffer "
                                         "but not the declared payload length, arbitration id words with bits 29/30 set, complete bus entries after "
                                         "the declared payload length",
                                         "payload type of converted CAN frames is only required to be CAN or CAN-FD (the mapping is not stated)"],
    "level_text": "Generated-input search and deterministic sweeps: expected packets come from an independent big-endian parse of the "
                  "TECMP bytes; supported well-formed messages must convert to exactly the listed packets (ids, timestamp, data, "
                  "checksum, serial / version strings, per-interface counters), unsupported or non-fitting ones must yield none. "
                  "Both entry points (Decoder::decode and TECMP::Decoder::Decode) are compared.",
    "level_note": "Trusted: harness/common/tecmp.h tecmpReference (layout cross-checked against the TECMP captures in the repo's tests).",
    "stages": [
        pbt("sweeps", "pbt_C15", mode="enum", quick={}, thorough={"timeout": 7200}),
        pbt("generated_frames", "pbt_C15", quick={"cases": 12000, "size": 100, "shards": 8},
            thorough={"cases": 300000, "size": 200, "shards": 16}),
        cgf("coverage_guided", "pbt_C15", quick={"runs": 20000, "workers": 8}, thorough={"runs": 120000, "workers": 16}),
    ],
}

PROPS["C02"] = {
    "level": "exploration",
    "engine": "libFuzzer + rapidcheck",
    "technique": "coverage-guided fuzzing (libFuzzer, structure-aware histories, semantic oracle inside the target) + deterministic truncation / field sweep + property-based mutated histories, all under ASan/UBSan",
    "rule": "cases = histories of 1..8 buffers on one decoder: raw bytes, CMP frames from field recipes (typed payload templates, segments, "
            "overridden lengths, trailing bytes, truncation), TECMP frames; sweep = 16 seed frames x every truncation offset x every "
            "byte / 16-bit field set to boundary values, each between a first and a last segment; non-trivial when some decode call "
            "returned a packet, left a pending reassembly or converted a TECMP message; distinct = distinct inputs (64-bit hash)"
            " The enumeration also holds frames of 65536 / 65535 / 65534 / 65528 / 65520 / 32768 bytes tiled exactly to their last byte by unsegmented messages of 0..100 payload bytes; one generated history in eight starts with 60..70 / 250..260 / 1020..1030 endpoints that all have a message in progress; one in five repeats frames. Every decode call is guarded by a 30 s alarm (returns promptly) and exceptions leaving decode() are failures.",
    "assumptions": COMMON_ASSUMPTIONS + ["buffers are exactly-sized heap copies freed before the returned packets are inspected",
                                         "libFuzzer -seed pins a campaign only approximately; a saved artifact is the reproducible unit; "
                                         "timeout/oom/slow-unit artifacts count only if reproduced three times in isolation"],
    "level_text": "Memory safety is observed by ASan/UBSan on every decode of generated, swept and coverage-guided inputs; the semantic "
                  "part (input not written, <= 1 packet per 12 bytes, non-null packets with payload, ownership after free / later frames / "
                  "decoder destruction, in-bounds accessor views) is asserted inside the target. Prompt return: libFuzzer -timeout.",
    "level_note": "Trusted: ASan/UBSan, libFuzzer; the structure-aware decoder of the fuzz input only shapes the search.",
    "stages": [
        pbt("truncation_field_sweep", "pbt_C02", mode="enum", quick={}, thorough={"timeout": 7200}),
        pbt("mutated_histories", "pbt_C02", quick={"cases": 4500, "size": 100, "shards": 8},
            thorough={"cases": 30000, "size": 200, "shards": 16}),
        fuzz("libfuzzer_decode", "fuzz_decode", quick={"workers": 8, "runs": 150000, "max_len": 600, "max_len_big": 4096},
             thorough={"workers": 16, "runs": 10000000, "max_len": 1024, "max_len_big": 65536, "timeout": 14400}),
    ],
}
ENGINES.append({"name": "libFuzzer targets", "path": "/verif/harness/fuzz", "serves_properties": ["C02", "C03"],
                "kind_free_text": "coverage-guided fuzzing, structure-aware decode of the input, semantic oracle inside the target"})

PROPS["C11"] = {
    "level": "exploration",
    "technique": "stateful property-based testing (rapidcheck) + exhaustive value sweeps: every setter against a field-map model, all getters compared after each write",
    "rule": "cases = (class out of 18 header / payload classes incl. TECMP, prior state from an all-zero / all-ones / pseudo-random image, "
            "sequence of 1..16 (thorough ..40) in-range writes incl. the TECMP group setters of 0..12 raw bytes and Packet::setPayload with any known type x arbitrary bytes x length 0..79 and setData of CAN / CAN-FD / LIN / Ethernet with its effects on the length and DLC fields, and setData of the capture-module / interface variable part; half of the prior images of classes with a data length carry a length that agrees with the data area) and, exhaustively, every in-range value of every field <= 16 bits on the "
            "three backgrounds with boolean flags set and cleared in both orders; non-trivial when a write on a non-zero background "
            "changes the value; distinct = distinct serialized cases (an exhaustive sweep case covers up to 65536 writes, counted in "
            "counters.writes)"
            " One data write in eight happens while the payload's own type field holds the invalid constant (restored afterwards).",
    "assumptions": COMMON_ASSUMPTIONS + ["the model is initialised from the getters of the prior state; fields viewing the same bytes (flag word / "
                                         "single flags, interface id / vendor id, CAN id and CRC words, payload type parts) are modelled as views of one cell",
                                         "in-range = the field's bit width (CAN id 29 bits, CAN CRC 15, CAN-FD CRC 21, SBC 3, LIN id 6, parity 2) or its enumerators"],
    "level_text": "Model-based search over setter sequences from arbitrary prior states, exhaustive in the value for all fields up to 16 "
                  "bits: after every write every getter must equal the model (written field = value, everything else unchanged) and the "
                  "data bytes and length must be untouched.",
    "level_note": "Trusted: the field table in harness/common/fields.h (bit positions of overlapping views).",
    "stages": [
        pbt("exhaustive_values", "pbt_C11", mode="enum", quick={}, thorough={}),
        pbt("setter_sequences", "pbt_C11", quick={"cases": 40000, "size": 100, "shards": 8},
            thorough={"cases": 400000, "size": 200, "shards": 16}),
    ],
}

PROPS["C12"] = {
    "level": "exploration",
    "technique": "property-based testing (rapidcheck) + exhaustive / boundary value sweeps against an external wire-layout table (byte offset, width, bit position, big-endian)",
    "rule": "cases = (a) API writes of in-range values (incl. setData of CAN / CAN-FD / LIN / Ethernet: length and DLC bytes) onto objects with zero / ones / pseudo-random images (half of them with a data length that agrees with the data area), raw bytes compared with the "
            "image the layout table prescribes (exactly the field's bits replaced); (b) hand-laid images read back through every "
            "getter; (c) default objects: reserved bits zero, header sizes; (d) Packet::getRawCmpHeader / getRawMessageHeader for "
            "generated packets of every message type; (e) the length-prefixed variable part of the capture-module / interface payloads, written onto fresh objects and over earlier content (setData or raw bytes), all raw bytes compared with the independent builder, and read back from hand-laid bytes, after which the same object receives by copy assignment another layout of exactly the same total size and is read again; non-trivial when the field is wider than a byte or narrower than its container "
            "(endianness / masks matter), or a packet raw-header / default-object case; distinct = distinct serialized cases"
            " In the packet raw-header mode half of the cases change the payload's type in place through the mutable Packet::getPayload() after the headers were read once.",
    "assumptions": COMMON_ASSUMPTIONS + ["trusted base: the layout table in harness/common/fields.h and harness/oracle/wire.h, written from the ASAM CMP 1.0 / "
                                         "TECMP layouts (as in the Wireshark dissectors) and cross-checked against the real captures embedded in the "
                                         "repository's tests; the standard documents are not available offline",
                                         "NaN bit patterns of the analog float fields are not compared through float return values"],
    "level_text": "Generated and swept writes / images for all fields of 16 classes with a raw image: offset, width, bit position, "
                  "endianness and 'reserved never changed' are one byte-image comparison per write; header sizes equal the standard's.",
    "level_note": "The table is the trusted base; a disagreement on the unchanged tree is investigated as 'which one matches the standard'.",
    "stages": [
        pbt("layout_sweeps", "pbt_C12", mode="enum", quick={}, thorough={}),
        pbt("generated_writes_and_images", "pbt_C12", quick={"cases": 40000, "size": 100, "shards": 8},
            thorough={"cases": 400000, "size": 200, "shards": 16}),
    ],
}

PROPS["C13"] = {
    "level": "exploration",
    "technique": "stateful + metamorphic property-based testing (rapidcheck) and exhaustive length sweeps: builder histories checked by getters, an independent parse of the raw bytes, the library's validator/decoder and a fresh-object comparison",
    "rule": "cases = (payload class, start object default-constructed or constructed from independently laid-out raw bytes with 0..40 slack bytes, history of 0..5 (thorough ..8) earlier setData / header writes with other or exactly the same lengths and other contents, final "
            "header values + data); exhaustive: every CAN / CAN-FD / LIN data length 0..255, Ethernet / analog 0..300 + boundaries up to "
            "65529 / 65519, all string-length parities of the capture-module payload, stream-id lists of every parity; non-trivial when "
            "the object held data of another length before, or the content has an odd-length list / padded string; distinct = distinct "
            "serialized cases"
            " Half of the terminated-string calls pass empty strings as default-constructed string views (data() == nullptr).",
    "assumptions": COMMON_ASSUMPTIONS + ["the CAN DLC code is asserted only for lengths that have one (0..8, 12, 16, 20, 24, 32, 48, 64)",
                                         "data pointers passed to setData are non-null even for length 0"],
    "level_text": "Generated builder histories: getters return exactly the data and lengths supplied, header fields are preserved, the raw "
                  "bytes parse independently (NUL-terminated zero-padded even strings, zero pad after an odd stream-id list, exact vendor "
                  "data, nothing left over), the library's own validator and decoder accept them, and the raw bytes equal those of a "
                  "fresh object given only the final content.",
    "level_note": "Trusted: harness/oracle/wire.h parsers (walkCm, walkIf, header parsers).",
    "stages": [
        pbt("length_sweeps", "pbt_C13", mode="enum", quick={}, thorough={}),
        pbt("builder_histories", "pbt_C13", quick={"cases": 25000, "size": 100, "shards": 8},
            thorough={"cases": 400000, "size": 200, "shards": 16}),
    ],
}

PROPS["C14"] = {
    "level": "exploration",
    "technique": "property-based testing (rapidcheck) + exhaustive shape/relation/operation product: getter snapshots before/after copy, move and assignment, equality laws",
    "rule": "cases = (domain Packet / ASAM payload / TECMP payload / the seven typed ASAM payload classes / the four typed TECMP payload classes (objects of the class itself), source and target of every kind incl. the payload-less packet, "
            "zero-length payloads, payloads with an invalid type and payloads rejected by validation, target relation independent / copy / copy with another payload type / copy with exactly one bit of one header field changed (every field x bit position enumerated) or with equal headers and a payload differing in one bit / one byte shorter / longer / one type bit / self, operation copy-construct / "
            "copy-assign / move-construct / move-assign incl. self-assignment and self-move-assignment), followed by mutation of either "
            "side (for half of the packet copies: first of all through a writable payload reference obtained before the copy was made) and destruction of the source; non-trivial when the target already held a payload, a length is zero, the source has no "
            "payload, or the pair is equal-looking; distinct = distinct serialized cases"
            " For the capture-module and interface payload classes a compared object is rewritten through setData (other content of the same lengths, then the original content) and compared again."
            " A packet is also handed its own payload (setPayload(p.getPayload())) and must stay unchanged.",
    "assumptions": COMMON_ASSUMPTIONS + ["moved-from state is not asserted (only that it can be destroyed)",
                                         "packet equality is compared with field-by-field comparison only when both payloads are non-empty, as the statement says"],
    "level_text": "Generated and exhaustively enumerated pairs: the result's snapshot (all header getters, segment type, counter, payload "
                  "presence, type, length, bytes) equals the source's former snapshot whatever the target held; copies share no state "
                  "(mutation and destruction under ASan); == is reflexive and symmetric, agrees with field-wise comparison, != is its negation.",
    "level_note": "Needs the read-only hook Packet::verifHasPayload() to observe payload-less packets without undefined behaviour.",
    "stages": [
        pbt("shape_product", "pbt_C14", mode="enum", quick={}, thorough={}),
        pbt("generated_pairs", "pbt_C14", quick={"cases": 40000, "size": 100, "shards": 8},
            thorough={"cases": 800000, "size": 200, "shards": 16}),
    ],
}

PROPS["C16"] = {
    "level": "exploration",
    "technique": "stateful property-based testing (rapidcheck) + bounded exhaustive enumeration of operation sequences against a latest-message map model; plus coverage-guided structure-aware fuzzing (libFuzzer driving the same case struct and oracle)",
    "rule": "cases = sequences of {update(capture-module status | interface status | data packet | message of another kind (other status payload types, vendor, control, invalid-typed) of device d, interface i), "
            "removeDeviceById, removeInterfaceById, clear} over d in {0,1,2,3,65535}, i in {0,1,2,0xFFFFFFFF} or, in half of the cases, over a base id plus arithmetically related ids (x+1, x+32, x+64, x+128, x+256, top bit flipped; interfaces also x+65536); the exhaustive alphabet is run under three id mappings (plain, congruent mod 64, congruent mod 256), packets built through the "
            "API or obtained from Decoder::decode; exhaustive: all sequences up to length 4 (thorough 5) over a 15-operation alphabet (incl. updates that repeat an earlier payload with other header fields), "
            "random up to 60 (thorough 120) operations, in a tenth of the cases with one update turned into a burst over 8..1100 consecutive device / interface ids (many entries alive at once); non-trivial when an effective removal / clear is followed by a further status "
            "update; distinct = distinct serialized sequences"
            " A coverage-guided stage (libFuzzer on the binary image of the operation sequence) explores the same space.",
    "assumptions": COMMON_ASSUMPTIONS + ["entry order is not asserted (only ids, counts, lookups and stored packets)"],
    "level_text": "Model-based search, exhaustive up to a stated bound: after every operation device and interface counts, lookups by id "
                  "(index of the match or the element count), absence of duplicate ids and the stored packets' snapshots equal the model.",
    "level_note": "Trusted: the map model in the driver (written from the statement).",
    "stages": [
        pbt("bounded_exhaustive", "pbt_C16", mode="enum", quick={}, thorough={"timeout": 7200}),
        pbt("random_sequences", "pbt_C16", quick={"cases": 9000, "size": 100, "shards": 8},
            thorough={"cases": 100000, "size": 200, "shards": 16}),
        cgf("coverage_guided", "pbt_C16", quick={"runs": 2500, "workers": 8}, thorough={"runs": 40000, "workers": 16}),
    ],
}

PROPS["C19"] = {
    "level": "exploration",
    "technique": "property-based generation of per-thread workloads executed under ThreadSanitizer and compared with single-threaded digests (differential)",
    "rule": "cases = 2..8 generated workloads (encoder call sequences, decoder frame histories, TECMP frames for the static decoder, status "
            "operation sequences, payload-builder sequences, codec round trips), each run 1..3 times by its own thread on its own objects "
            "after a common start barrier, in a TSan build and in an ASan build; non-trivial when >= 2 threads execute the same library "
            "component; distinct = distinct serialized cases"
            " A third of the cases copy-construct each thread's encoder / decoder / status tracker from prototypes with a history built on the main thread (a copy is a separate instance)."
            " A quarter of the decoder workloads keep 60..1030 messages in progress at once."
            " A quarter of the encoder workloads never configure the ids (the defaults appear in every frame).",
    "assumptions": COMMON_ASSUMPTIONS + ["the harness does not own the scheduler: schedules are sampled, not enumerated; ThreadSanitizer's happens-before "
                                         "analysis reports an unsynchronised access to shared mutable state whenever both accesses execute in the run, "
                                         "largely independent of the actual interleaving",
                                         "libstdc++ and rapidcheck are not TSan-instrumented; all generation happens on the main thread before the threads start"],
    "level_text": "Generated concurrent workloads on distinct objects: per-thread result digests must equal the single-threaded ones and "
                  "ThreadSanitizer (halt_on_error) must report nothing. Weakest fit of the family: a race on a path no workload reaches, or "
                  "one that is not a data race in TSan's sense, can be missed.",
    "level_note": "Trusted: ThreadSanitizer. See DESIGN.md sec. 7 for the limits.",
    "stages": [
        pbt("tsan_workloads", "pbt_C19", variant="tsan", quick={"cases": 150, "size": 100, "shards": 8},
            thorough={"cases": 4000, "size": 200, "shards": 16}, schedule_dependent=True),
        pbt("asan_workloads", "pbt_C19", variant="asan", quick={"cases": 300, "size": 100, "shards": 8},
            thorough={"cases": 6000, "size": 200, "shards": 16}, schedule_dependent=True),
    ],
}

VALGRIND_WRAPPER = ["valgrind", "-q", "--error-exitcode=0", "--track-origins=no", "--show-mismatched-frees=no", "--num-callers=12"]

PROPS["C20"] = {
    "level": "exploration",
    "engine": "rapidcheck + valgrind memcheck",
    "technique": "property-based generation of codec / decoder / TECMP / status / builder workloads, replayed under valgrind memcheck with definedness client requests on every output byte, plus a poisoned-heap differential (0xAA vs 0x55 fill)",
    "rule": "cases = generated workloads (encoder call sequences incl. padded frames and status / vendor / control messages, decoder "
            "histories with reassembly and validator-accepted typed payloads (capture-module payloads also un-padded with odd prefixes), TECMP frames, status operation sequences, payload-builder sequences on reused objects, codec "
            "round trips); natively every case runs twice with fresh heap blocks (over-allocated by 16 bytes) filled 0xAA / 0x55 and all outputs - frames, packet fields, raw bytes and every typed accessor value of valid typed packets - must be bit-identical; "
            "a sample of the non-trivial cases is replayed under memcheck; non-trivial = the workload exercises padding, non-data "
            "messages, reassembly, TECMP conversion, status tracking or builders and produced output bytes; distinct = distinct serialized cases"
            " Reported views that leave the payload are followed for up to 16 bytes into the poisoned tail of the allocation (an invalid read under memcheck); a fifth of the typed workload payloads carry a 16-bit inner length / count of 0xFFFC..0xFFFF followed by zeros; TECMP workloads include partial trailing bus entries and padding behind the payload.",
    "assumptions": COMMON_ASSUMPTIONS + ["memcheck decides definedness exactly for the executed cases (heap and stack); the poisoning differential covers "
                                         "heap origins only",
                                         "any memcheck error raised while a case runs counts (the harness itself is clean on the unchanged tree)"],
    "level_text": "Generated workloads under a definedness checker: every byte of every frame, packet getter, payload byte and built "
                  "payload is checked with VALGRIND_CHECK_MEM_IS_DEFINED, memcheck's own uninitialised-value reports fail the case, and "
                  "natively the outputs must not depend on the fill pattern of fresh heap blocks.",
    "level_note": "Trusted: valgrind memcheck 3.19; g++ -O1 -g build without sanitizers.",
    "stages": [
        pbt("poisoned_heap_differential", "pbt_C20", variant="plain", replay_wrapper=VALGRIND_WRAPPER,
            quick={"cases": 4500, "size": 100, "shards": 8, "dump_max": 80, "dump_every": 3},
            thorough={"cases": 100000, "size": 200, "shards": 16, "dump_max": 400, "dump_every": 50}),
        {"kind": "memcheck", "name": "memcheck_definedness", "driver": "pbt_C20", "src": "props/pbt_C20.cpp", "variant": "plain",
         "cases_from": "poisoned_heap_differential", "builds": [("pbt_C20", "plain", "props/pbt_C20.cpp", (), ("-lrapidcheck",))],
         "quick": {"max_cases": 640, "procs": 16}, "thorough": {"max_cases": 6400, "procs": 16, "timeout": 14400}},
    ],
}
ENGINES.append({"name": "monitors", "path": "/verif/harness/props/pbt_C19.cpp, pbt_C20.cpp", "serves_properties": ["C19", "C20"],
                "kind_free_text": "generated workloads under ThreadSanitizer (C19) and valgrind memcheck + poisoning allocator (C20)"})
