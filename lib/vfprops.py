"""Property table: which stages decide which property, with their budgets per tier."""

COMMON_ASSUMPTIONS = [
    "trusted base: the independent oracle library under harness/oracle (own big-endian codec, frame walker, reference models)",
    "UBSan checks vptr, alignment and nonnull-attribute are disabled (the library's down-cast idiom, packed wire structs, "
    "memcpy(dst, nullptr, 0)); every other ASan/UBSan check is fatal",
    "generated-input search never establishes absence of violations outside the explored cases",
]


def pbt(name, driver, quick, thorough, mode="run", variant="asan", **kw):
    d = {"kind": "pbt", "name": name, "driver": driver, "src": "props/%s.cpp" % driver, "mode": mode, "variant": variant,
         "quick": quick, "thorough": thorough}
    d.update(kw)
    return d


PROPS = {}
NOT_CLAIMED = {}
HOOK_COMMITS = ["bae4130"]
ENGINES = [
    {"name": "rapidcheck drivers", "path": "/verif/harness/props", "kind_free_text": "property-based testing: one C++ driver per "
     "property (generator + oracle + replay mode), sharded by ./check"},
]
NOTES = ("All checks: ./check <ID> --tier quick|thorough; VERIF_SEED selects the generator seeds. Saved failing cases are plain "
         "text files re-run with ./check <ID> --replay <file> (no generator library involved). known_findings.txt lists "
         "fixed defects (regression replays under replays/<ID>/).")

PROPS["C01"] = {
    "level": "exploration",
    "technique": "property-based testing (rapidcheck): encode/decode round trip against getter snapshots of the source packets",
    "rule": "cases = generated batches of 1..12 (thorough ..40) packet recipes of all payload kinds x DataContext{min,max} x "
            "encoder ids; a case is non-trivial when the batch needs segmentation, or aggregates >=2 packets into one frame, "
            "or mixes message types, or has a payload length within +-2 of the fit boundary; distinct = distinct "
            "serialized cases (64-bit hash)",
    "assumptions": COMMON_ASSUMPTIONS + ["typed payloads in the batch are well-formed by the oracle's own validators"],
    "level_text": "Generated-input search: thousands of generated batches x configurations are encoded, decoded by a fresh "
                  "decoder and compared field by field with getter snapshots of the source packets; failures shrink to a "
                  "minimal replay file. Exploration is the right level for a property over an unbounded input space.",
    "level_note": "Trusted: the harness's recipe builders and snapshot comparison, ASan/UBSan. Only the fields the statement "
                  "names are compared.",
    "stages": [
        pbt("roundtrip", "pbt_C01", quick={"cases": 1000, "size": 100, "shards": 4},
            thorough={"cases": 20000, "size": 200, "shards": 16}),
    ],
}
