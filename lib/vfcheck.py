"""Check runner: stages (regression replays, enumerations, rapidcheck shards, libFuzzer workers, monitors),
violation confirmation, evidence writing.  See DESIGN.md sec. 3."""
import glob
import json
import os
import re
import shutil
import subprocess
import sys
import time

import vfbuild
from vfbuild import VERIF, BUILD
from vfprops import PROPS

EVIDENCE = os.path.join(VERIF, "evidence") if vfbuild.REPO == "/repo" else os.path.join(BUILD, "evidence")
FAILURES = os.path.join(VERIF, "failures") if vfbuild.REPO == "/repo" else os.path.join(BUILD, "failures")
REPLAYS = os.path.join(VERIF, "replays")
KNOWN = os.path.join(VERIF, "known_findings.txt")

ASAN_ENV = {
    # quarantine / malloc_context_size: measured - with the defaults the stack depot grows by ~11 MB per 1000 rapidcheck cases
    # (4.5 GB per shard in a 400000-case thorough shard, 16 shards -> the kernel's OOM killer); with these a shard stays < 200 MB
    "ASAN_OPTIONS": "abort_on_error=0:detect_leaks=1:allocator_may_return_null=1:detect_stack_use_after_return=1:"
                    "strict_string_checks=1:quarantine_size_mb=64:malloc_context_size=8:exitcode=86",
    "UBSAN_OPTIONS": "print_stacktrace=1:halt_on_error=1:exitcode=86",
    "TSAN_OPTIONS": "halt_on_error=1:exitcode=86:second_deadlock_stack=1",
    "LSAN_OPTIONS": "exitcode=86",
}


def seed_base():
    try:
        s = int(os.environ.get("VERIF_SEED", "1"))
    except ValueError:
        s = 1
    return abs(s) % 2000000 or 1


class StageOutcome:
    def __init__(self, name):
        self.name = name
        self.driver = name
        self.stats = []          # list of dicts (stats json of each process)
        self.failure = None      # (case_path, why, driver, extra_args)
        self.notes = []
        self.wall = 0.0
        self.campaign = None     # exact command of the shard that produced the failure (for campaign replays)


def env_for(extra=None):
    e = dict(os.environ)
    e.update(ASAN_ENV)
    if extra:
        e.update(extra)
    return e


def run_proc(cmd, env, timeout, log_path):
    t0 = time.time()
    with open(log_path, "w") as log:
        try:
            r = subprocess.run(cmd, stdout=log, stderr=subprocess.STDOUT, env=env, timeout=timeout)
            rc = r.returncode
        except subprocess.TimeoutExpired:
            rc = "timeout"
    return rc, time.time() - t0


def read_tail(path, n=4000):
    try:
        with open(path, "r", errors="replace") as f:
            s = f.read()
        return s[-n:]
    except OSError:
        return ""


def load_stats(path):
    try:
        with open(path) as f:
            return json.load(f)
    except (OSError, ValueError):
        return None


def fail_from_log(log_path):
    txt = read_tail(log_path, 200000)
    m = re.search(r"^FAIL (\S+)\s*\n\s*why: (.*)$", txt, re.M)
    if m:
        return m.group(1), m.group(2)
    return None


def workdir(pid, stage):
    d = os.path.join(BUILD, "work", pid, stage)
    shutil.rmtree(d, ignore_errors=True)
    os.makedirs(os.path.join(d, "fails"))
    return d


# ---------------------------------------------------------------------------------------------------
# Stage implementations
# ---------------------------------------------------------------------------------------------------
def run_parallel(jobs, max_par=16):
    """jobs: list of (cmd, env, timeout, log). Returns list of (rc, wall)."""
    import concurrent.futures
    with concurrent.futures.ThreadPoolExecutor(max_workers=max_par) as ex:
        return list(ex.map(lambda j: run_proc(*j), jobs))


def stage_pbt(pid, stage, tier):
    """rapidcheck shards, or a deterministic enumeration (mode 'enum')."""
    out = StageOutcome(stage["name"])
    out.driver = stage["driver"]
    cfg = stage[tier]
    if cfg is None:
        return out
    binary = vfbuild.build_driver(stage["driver"], stage.get("variant", "asan"), stage["src"])
    wd = workdir(pid, stage["name"])
    mode = stage.get("mode", "run")
    shards = cfg.get("shards", 1) if mode == "run" else cfg.get("enum_shards", 8)
    base = seed_base()
    jobs = []
    for k in range(shards):
        env = env_for({"RC_PARAMS": "seed=%d max_success=%d max_size=%d max_discard_ratio=50%s" % (
            base * 1000 + k + 1, cfg.get("cases", 100), cfg.get("size", 100),
            # schedule-dependent stages: a failure is a sample of the thread schedule, shrinking it by re-running is meaningless
            " noshrink=1" if stage.get("schedule_dependent") else "")})
        env.update(stage.get("env", {}))
        cmd = list(stage.get("wrapper", [])) + [binary, "--" + mode, "--tier", tier, "--stats", os.path.join(wd, "stats-%d.json" % k),
                        "--faildir", os.path.join(wd, "fails-%d" % k)] + list(cfg.get("args", []))
        os.makedirs(os.path.join(wd, "fails-%d" % k), exist_ok=True)
        if mode == "enum":
            cmd += ["--enum-shard", "%d/%d" % (k, shards)]
        if cfg.get("dump_max"):
            ddir = os.path.join(wd, "cases-%d" % k)
            os.makedirs(ddir, exist_ok=True)
            cmd += ["--dump-dir", ddir, "--dump-every", str(cfg.get("dump_every", 1)), "--dump-max", str(cfg["dump_max"])]
        jobs.append((cmd, env, cfg.get("timeout", 3600), os.path.join(wd, "log-%d.txt" % k)))
    t0 = time.time()
    results = run_parallel(jobs)
    # A shard ended by SIGKILL / SIGTERM was stopped from outside (out-of-memory killer, operator): that says nothing about the
    # property.  It is re-run once on its own; if it is killed again the shard is inconclusive - noted, never a violation.
    killed_shards = []
    for k, (rc, _) in enumerate(results):
        if rc in (-9, -15):
            results[k] = run_proc(*jobs[k])
            if results[k][0] in (-9, -15):
                killed_shards.append(k)
    out.wall = time.time() - t0
    for k, (rc, _) in enumerate(results):
        if k in killed_shards:
            out.notes.append("shard %d was killed from outside twice (signal %d: out of memory?) - INCONCLUSIVE for its cases, not counted" % (k, -rc))
            continue
        st = load_stats(os.path.join(wd, "stats-%d.json" % k))
        log = jobs[k][3]
        if rc == 0:
            if st:
                out.stats.append(st)
            continue
        if rc == "timeout":
            out.notes.append("shard %d hit the watchdog (%ds): inconclusive" % (k, jobs[k][2]))
            continue
        found = fail_from_log(log)
        if rc == 1 and found:
            if st:
                out.stats.append(st)
            if not out.failure:
                out.failure = (found[0], found[1], stage, log)
                out.campaign = {"driver": stage["driver"], "variant": stage.get("variant", "asan"), "args": _campaign_args(stage, jobs[k][0]),
                                "rc_params": jobs[k][1].get("RC_PARAMS", "")}
            continue
        if rc == 2 and "GENERATOR-ERROR" in read_tail(log):
            sys.stderr.write(read_tail(log))
            raise SystemExit("generator error in %s (see %s)" % (stage["driver"], log))
        # crash (sanitizer abort / signal).  The driver's death callback saved the case it was running; for rapidcheck
        # shards the shard is re-run with one forked child per case so that the crash becomes an ordinary failure which
        # rapidcheck can shrink (bounded in time; the unshrunk crash case is the fall-back).
        crash_case = os.path.join(wd, "fails-%d" % k, "%s-crash.case" % pid)
        crash_copy = None
        if os.path.exists(crash_case):
            crash_copy = os.path.join(wd, "fails-%d" % k, "%s-crash-shard%d.case" % (pid, k))
            shutil.copyfile(crash_case, crash_copy)
        out.notes.append("shard %d died with status %s (%s)" % (k, rc, sanitizer_summary(log)))
        found = None
        if out.failure:
            continue  # one failure is enough; the other dead shards are listed in the notes
        out.campaign = {"driver": stage["driver"], "variant": stage.get("variant", "asan"), "args": _campaign_args(stage, jobs[k][0]),
                        "rc_params": jobs[k][1].get("RC_PARAMS", "")}
        # schedule-dependent stages: shrinking by re-running is pointless (the failure is a sample of the schedule)
        if mode == "run" and not stage.get("schedule_dependent"):
            cmd, env, to, _ = jobs[k]
            flog = os.path.join(wd, "forklog-%d.txt" % k)
            rc2, _ = run_proc(cmd + ["--fork"], env, max(180, int(20 * results[k][1])), flog)
            found = fail_from_log(flog)
        if found:
            if not out.failure:
                out.failure = (found[0], found[1] + " | " + sanitizer_summary(log), stage, log)
        elif crash_copy:
            if not out.failure:
                out.failure = (crash_copy, "process died (status %s): %s" % (rc, sanitizer_summary(log)), stage, log)
        else:
            if not out.failure:
                out.failure = (log, "process died (status %s) and no crash case was captured: %s" % (rc, sanitizer_summary(log)), stage, log)
    return out


def _campaign_args(stage, cmd):
    """The driver's own arguments of a shard command (wrapper and binary stripped)."""
    n = len(stage.get("wrapper", [])) + 1
    return [a for a in cmd[n:]]


def sanitizer_summary(log):
    txt = read_tail(log, 100000)
    m = re.search(r"(SUMMARY: \w+Sanitizer: [^\n]*|runtime error: [^\n]*|ERROR: \w+Sanitizer: [^\n]*)", txt)
    return m.group(1) if m else "no sanitizer summary found"


def stage_replays(pid, tier):
    """Regression tier: every saved case under replays/<pid>/<driver>/ is re-run without rapidcheck."""
    out = StageOutcome("regression_replays")
    seen_drivers = set()
    t0 = time.time()
    if os.environ.get("VERIF_SKIP_REPLAYS") and os.environ.get("VERIF_REPO"):
        # self-test only (never on /repo itself): measures what the generated search of one run finds without the saved cases
        out.notes.append("saved replays skipped (self-test, generated search only)")
        return out
    for stage in PROPS[pid]["stages"]:
        if stage["kind"] not in ("pbt",) or stage["driver"] in seen_drivers:
            continue
        seen_drivers.add(stage["driver"])
        files = sorted(glob.glob(os.path.join(REPLAYS, pid, stage["driver"], "*.case")))
        if not files:
            continue
        binary = vfbuild.build_driver(stage["driver"], stage.get("variant", "asan"), stage["src"])
        wd = workdir(pid, "replays-" + stage["driver"])
        for i, f in enumerate(files):
            log = os.path.join(wd, "log-%d.txt" % i)
            stats = os.path.join(wd, "stats-%d.json" % i)
            env = env_for(stage.get("env", {}))
            rc, _ = run_proc(list(stage.get("replay_wrapper", stage.get("wrapper", []))) + [binary, "--replay", f, "--stats", stats], env, 600, log)
            st = load_stats(stats)
            if st:
                out.stats.append(st)
            if rc != 0 and not out.failure:
                why = read_tail(log, 2000).strip().replace("\n", " | ")
                out.failure = (f, "regression case fails: " + why, stage, log)
    out.wall = time.time() - t0
    return out


STAGE_IMPL = {"pbt": stage_pbt}


def register_stage(kind, fn):
    STAGE_IMPL[kind] = fn


# ---------------------------------------------------------------------------------------------------
# Violation confirmation, evidence
# ---------------------------------------------------------------------------------------------------
def replay_once(pid, path, timeout=900):
    """Returns True if the saved case still fails."""
    if path.endswith(".campaign"):
        with open(path) as f:
            lines = [l for l in f.read().splitlines() if l and not l.startswith("#")]
        return _campaign_run(pid, json.loads(lines[0]))
    driver, stage = driver_for_replay(pid, path)
    if stage["kind"] == "pbt":
        binary = vfbuild.build_driver(stage["driver"], stage.get("variant", "asan"), stage["src"])
        wd = os.path.join(BUILD, "work", pid, "confirm")
        os.makedirs(wd, exist_ok=True)
        log = os.path.join(wd, "replay-log.txt")
        wrapper = list(stage.get("replay_wrapper", stage.get("wrapper", [])))
        renv = env_for(stage.get("env", {}))
        if stage.get("schedule_dependent"):
            renv["VF_REPLAY_REPEAT"] = "150"
        rc, _ = run_proc(wrapper + [binary, "--replay", path] + ([] if wrapper else ["--fork"]), renv, timeout, log)
        sys.stdout.write(read_tail(log, 3000))
        return rc != 0
    impl = STAGE_IMPL[stage["kind"]]
    return impl(pid, stage, "replay", path)


def _campaign_run(pid, camp, timeout=3600):
    """Re-runs a campaign (one shard with its exact arguments and RC_PARAMS); returns True if it fails again."""
    if camp.get("fuzz"):
        stage = None
        for st in PROPS[pid]["stages"]:
            if st.get("driver") == camp["driver"] and st["kind"] == "fuzz":
                stage = st
        if stage is None:
            return False
        binary = _fuzz_binary(stage)
        wd = os.path.join(BUILD, "work", pid, "campaign")
        shutil.rmtree(wd, ignore_errors=True)
        cdir, adir = os.path.join(wd, "corpus"), os.path.join(wd, "art") + "/"
        os.makedirs(cdir)
        os.makedirs(adir)
        src = os.path.join(VERIF, "corpus", stage["driver"])
        if camp.get("seeded") and os.path.isdir(src):
            for f in os.listdir(src):
                shutil.copyfile(os.path.join(src, f), os.path.join(cdir, f))
        env = env_for({"ASAN_OPTIONS": ASAN_ENV["ASAN_OPTIONS"].replace("detect_leaks=1", "detect_leaks=0")})
        run_proc([binary, cdir] + list(camp["args"]) + ["-artifact_prefix=" + adir], env, timeout, os.path.join(wd, "log.txt"))
        return any(a.startswith("crash-") for a in os.listdir(adir))
    stage = None
    for st in PROPS[pid]["stages"]:
        if st.get("driver") == camp["driver"] and st["kind"] == "pbt" and st.get("variant", "asan") == camp.get("variant", st.get("variant", "asan")):
            stage = st
            break
    if stage is None:
        return False
    binary = vfbuild.build_driver(stage["driver"], stage.get("variant", "asan"), stage["src"])
    wd = os.path.join(BUILD, "work", pid, "campaign")
    shutil.rmtree(wd, ignore_errors=True)
    os.makedirs(os.path.join(wd, "fails"))
    args = []
    skip = False
    for a in camp["args"]:
        if skip:
            skip = False
            continue
        if a in ("--stats", "--faildir", "--dump-dir"):
            skip = True
            continue
        args.append(a)
    cmd = list(stage.get("wrapper", [])) + [binary] + args + ["--stats", os.path.join(wd, "stats.json"), "--faildir", os.path.join(wd, "fails")]
    env = env_for({"RC_PARAMS": camp.get("rc_params", "")})
    env.update(stage.get("env", {}))
    log = os.path.join(wd, "log.txt")
    rc, _ = run_proc(cmd, env, timeout, log)
    # an ordinary property failure, or the process was ended by a sanitizer report (exitcode=86 in *SAN_OPTIONS)
    return (rc == 1 and fail_from_log(log) is not None) or rc == 86


def campaign_confirm(pid, camp):
    return all(_campaign_run(pid, camp) for _ in range(2))


def write_campaign_file(pid, camp, case_path, why):
    os.makedirs(os.path.join(FAILURES, pid), exist_ok=True)
    dst = os.path.join(FAILURES, pid, "%s-campaign-%d.campaign" % (pid, abs(hash(json.dumps(camp, sort_keys=True))) % 100000000))
    with open(dst, "w") as f:
        f.write("# campaign replay: re-runs one shard with the same binary, seed and case order (./check %s --replay <this file>)\n" % pid)
        f.write("# first failing case of the campaign (passes when run alone): %s\n" % case_path)
        f.write(json.dumps(camp) + "\n")
    return dst


def driver_for_replay(pid, path):
    stages = PROPS[pid]["stages"]
    name = None
    try:
        with open(path, "r", errors="replace") as f:
            head = f.read(400)
        m = re.search(r"^# driver (\S+)", head, re.M)
        if m:
            name = m.group(1)
    except OSError:
        pass
    if name is None:
        # replays/<pid>/<driver>/file
        parent = os.path.basename(os.path.dirname(os.path.abspath(path)))
        if any(s.get("driver") == parent for s in stages):
            name = parent
    for s in stages:
        if s.get("driver") == name:
            return name, s
    for s in stages:
        if path.endswith(".case") and s["kind"] == "pbt":
            return s["driver"], s
    for s in stages:
        if not path.endswith(".case") and s["kind"] != "pbt":
            return s.get("driver"), s
    return stages[0].get("driver"), stages[0]


def keep_failure(pid, failure):
    path, why, stage, log = failure
    os.makedirs(os.path.join(FAILURES, pid), exist_ok=True)
    dst = os.path.join(FAILURES, pid, os.path.basename(path))
    if os.path.abspath(path).startswith(os.path.abspath(REPLAYS)):
        return path
    try:
        if path.endswith(".case"):
            with open(path, "rb") as f:
                body = f.read()
            with open(dst, "wb") as f:
                f.write(("# driver %s\n" % stage.get("driver", "?")).encode())
                f.write(body)
        else:
            shutil.copyfile(path, dst)
        if log and os.path.exists(log):
            shutil.copyfile(log, dst + ".log")
    except OSError:
        return path
    return dst


def known_findings(pid):
    known, fixed = [], []
    if os.path.exists(KNOWN):
        with open(KNOWN) as f:
            for line in f:
                line = line.strip()
                if line.startswith("known:") and ("property=%s " % pid) in line + " ":
                    known.append(line[len("known:"):].strip())
                elif line.startswith("fixed:") and ("property=%s " % pid) in line + " ":
                    fixed.append(line)
    return known, fixed


def write_evidence(pid, tier, outcomes, wall, violations, extra_notes):
    prop = PROPS[pid]
    evaluations = 0
    hashes = set()
    anon_by_driver = {}
    classes, counters, samples, stage_summ = {}, {}, [], []
    exhaustive_parts = []
    for o in outcomes:
        ev = 0
        for st in o.stats:
            ev += int(st.get("evaluations", 0))
            hs = st.get("distinct_hashes")
            if hs is not None and len(hs) == int(st.get("distinct_nontrivial", 0)):
                hashes.update("%s:%s" % (o.driver, h) for h in hs)
            else:
                # hash list capped: the union with other processes is unknown, count conservatively (maximum, not sum)
                anon_by_driver[o.driver] = max(anon_by_driver.get(o.driver, 0), int(st.get("distinct_nontrivial", 0)))
            for k, v in st.get("classes", {}).items():
                classes[k] = classes.get(k, 0) + v
            for k, v in st.get("counters", {}).items():
                counters[k] = counters.get(k, 0) + v
            for s in st.get("samples", []):
                if len(samples) < 8:
                    samples.append({"stage": o.name, "case": s})
            if st.get("exhaustive"):
                exhaustive_parts.append({"stage": o.name, "evaluations": int(st.get("evaluations", 0)), "bound": st.get("note", "")})
        evaluations += ev
        stage_summ.append({"stage": o.name, "evaluations": ev, "wall_s": round(o.wall, 2), "notes": o.notes})
    distinct = len(hashes)
    for drv, n in anon_by_driver.items():
        # conservative: processes with capped hash lists may overlap with everything else of the same driver
        distinct = max(distinct, n) if not any(h.startswith(drv + ":") for h in hashes) else max(distinct, len([h for h in hashes if not h.startswith(drv + ":")]) + max(n, len([h for h in hashes if h.startswith(drv + ":")])))
    ev = {
        "property_id": pid,
        "tier": tier,
        "seed": seed_base(),
        "level": prop["level"],
        "coverage": {
            "evaluations": evaluations,
            "distinct_nontrivial": distinct,
            "rule": prop["rule"],
            "samples": samples,
            "class_histogram": classes,
            "counters": counters,
            "stages": stage_summ,
            "exhaustive_parts": exhaustive_parts,
            "exhaustive": False,
            "technique": prop["technique"],
            "tree_hash": vfbuild.repo_hash(),
        },
        "assumptions": prop["assumptions"] + extra_notes,
        "wall_s": round(wall, 2),
        "violations": violations,
    }
    os.makedirs(EVIDENCE, exist_ok=True)
    tmp = os.path.join(EVIDENCE, pid + ".json.tmp")
    with open(tmp, "w") as f:
        json.dump(ev, f, indent=1)
    os.replace(tmp, os.path.join(EVIDENCE, pid + ".json"))
    return ev


def run_check(pid, tier):
    if pid not in PROPS:
        print("unknown property %s" % pid)
        return 2
    t0 = time.time()
    vfbuild.build_lib("asan")
    outcomes = []
    failure = None
    failed_outcome = None
    known, _fixed = known_findings(pid)
    for line in known:
        print("KNOWN-FINDING: %s" % line)

    # self-test only (never on /repo itself): run one stage alone, without the saved replays, to measure what that stage finds
    only_stage = os.environ.get("VERIF_ONLY_STAGE") if os.environ.get("VERIF_REPO") else None
    if only_stage:
        o = StageOutcome("regression_replays")
        o.notes.append("saved replays skipped (self-test of the stage %s alone)" % only_stage)
    else:
        o = stage_replays(pid, tier)
    outcomes.append(o)
    failure = o.failure
    if not failure:
        for stage in PROPS[pid]["stages"]:
            if stage.get(tier) is None:
                continue
            if only_stage and stage["name"] != only_stage:
                continue
            o = STAGE_IMPL[stage["kind"]](pid, stage, tier)
            outcomes.append(o)
            print("[%s] stage %-28s evaluations=%-9d wall=%.1fs %s" % (
                pid, o.name, sum(int(s.get("evaluations", 0)) for s in o.stats), o.wall, "; ".join(o.notes)))
            sys.stdout.flush()
            if o.failure:
                failure = o.failure
                failed_outcome = o
                break

    violations = 0
    notes = []
    if failure:
        path = keep_failure(pid, failure)
        print("[%s] candidate failure: %s\n      why: %s" % (pid, path, failure[1]))
        confirmed = 0
        if os.path.exists(path) and (path.endswith(".case") or failure[2]["kind"] != "pbt"):
            # Deterministic checks: the saved case must fail in all of 3 isolated replays.  Schedule-dependent stages (C19: the
            # harness does not own the thread schedule, a failure is a sample of it): up to 12 replays, two further failures
            # confirm it - on a tree where the property holds no replay ever ends in a sanitizer report or a digest mismatch.
            nondet = bool(failure[2].get("schedule_dependent"))
            runs, need = (12, 2) if nondet else (3, 3)
            for _ in range(runs):
                if replay_once(pid, path):
                    confirmed += 1
                if confirmed >= need:
                    break
            if confirmed >= need:
                violations = 1
            elif failed_outcome is not None and getattr(failed_outcome, "campaign", None) and campaign_confirm(pid, failed_outcome.campaign):
                # The single case passes in isolation but the same campaign (same binary, same seed, same case order in one
                # process) fails again every time: the failure depends on state that survives between independent cases, i.e.
                # on hidden global / static state inside the library.  The replay file is the campaign itself.
                path = write_campaign_file(pid, failed_outcome.campaign, path, failure[1])
                failure = (path, failure[1] + " | fails only after the earlier cases of the same campaign ran in the same process: "
                           "state survives between independent uses of the library", failure[2], failure[3])
                violations = 1
            else:
                notes.append("a candidate failure (%s) reproduced only %d/%d times and was not reported" % (path, confirmed, runs))
                print("[%s] candidate reproduced %d/%d times: NOT reported as a violation" % (pid, confirmed, runs))
        else:
            violations = 1  # crash log only
        if violations:
            write_evidence(pid, tier, outcomes, time.time() - t0, 1, notes)
            print("VIOLATION property=%s replay=%s" % (pid, path))
            print("  why: %s" % failure[1])
            return 1
    ev = write_evidence(pid, tier, outcomes, time.time() - t0, 0, notes)
    print("[%s] OK tier=%s seed=%d evaluations=%d distinct_nontrivial=%d wall=%.1fs" % (
        pid, tier, seed_base(), ev["coverage"]["evaluations"], ev["coverage"]["distinct_nontrivial"], ev["wall_s"]))
    if ev["coverage"]["distinct_nontrivial"] < 2:
        print("[%s] ERROR: fewer than 2 distinct non-trivial cases - the check is vacuous" % pid)
        return 3
    return 0


def setup():
    """Build all library variants and drivers (MANIFEST.setup_cmd)."""
    import concurrent.futures
    variants = set()
    drivers = []
    for pid, prop in PROPS.items():
        for st in prop["stages"]:
            default_variant = "fuzz" if st["kind"] == "fuzz" else st.get("variant", "asan")
            for b in st.get("builds", [(st.get("driver"), default_variant, st.get("src"), st.get("build_flags", ()), st.get("build_libs", ("-lrapidcheck",)))]):
                if b[0]:
                    variants.add(b[1])
                    drivers.append(b)
    for v in sorted(variants):
        vfbuild.build_lib(v)
        print("built library variant %s" % v)
    uniq = {}
    for d in drivers:
        uniq[(d[0], d[1])] = d
    with concurrent.futures.ThreadPoolExecutor(max_workers=8) as ex:
        futs = {ex.submit(vfbuild.build_driver, d[0], d[1], d[2], d[3], d[4]): d for d in uniq.values()}
        for f in concurrent.futures.as_completed(futs):
            f.result()
            print("built driver %s (%s)" % (futs[f][0], futs[f][1]))
    return 0


def main(argv):
    os.chdir(VERIF)
    if not argv or argv[0] in ("-h", "--help"):
        print(__doc__)
        return 2
    if argv[0] == "--setup":
        return setup()
    if argv[0] == "--manifest":
        return write_manifest()
    pid = argv[0]
    tier = os.environ.get("VERIF_TIER", "quick")
    replay = None
    i = 1
    while i < len(argv):
        if argv[i] == "--tier":
            tier = argv[i + 1]
            i += 2
        elif argv[i] == "--replay":
            replay = argv[i + 1]
            i += 2
        else:
            i += 1
    if tier not in ("quick", "thorough"):
        tier = "quick"
    if replay:
        failing = replay_once(pid, replay)
        if failing:
            print("VIOLATION property=%s replay=%s" % (pid, replay))
            return 1
        print("[%s] replay passes: %s" % (pid, replay))
        return 0
    return run_check(pid, tier)


def write_manifest():
    """MANIFEST.json is generated from the property table so that it always matches what ./check runs."""
    import vfprops
    all_ids = ["C%02d" % i for i in range(1, 21)]
    checks = []
    for pid in all_ids:
        if pid not in PROPS:
            continue
        p = PROPS[pid]
        checks.append({
            "property_id": pid,
            "quick_cmd": "./check %s --tier quick" % pid,
            "thorough_cmd": "./check %s --tier thorough" % pid,
            "evidence_file": "/verif/evidence/%s.json" % pid,
            "replay_cmd_template": "./check %s --replay {path}" % pid,
            "engine": p.get("engine", "rapidcheck"),
            "level_claimed": {"category": p["level"], "text": p["level_text"], "design_ref": "DESIGN.md sec. 4, " + pid},
            "level_note": p["level_note"],
            "technique": p["technique"],
        })
    na = [{"property_id": pid, "reason": vfprops.NOT_CLAIMED.get(pid, "check not built yet (work in progress); the property is in scope of the technique, see DESIGN.md sec. 4")}
          for pid in all_ids if pid not in PROPS]
    man = {
        "version": 1,
        "setup_cmd": "./check --setup",
        "hooks": {
            "guard": "ASAM_CMP_LIB_VERIF",
            "enable": "checks compile /repo/src/*.cpp themselves with -DASAM_CMP_LIB_VERIF -I/repo/include (clang++ ASan/UBSan, "
                      "libFuzzer, TSan and g++ variants) into /verif/build/, keyed by a hash of /repo/src and /repo/include",
            "baseline_off_cmd": "cmake --build /repo/_build && ctest --test-dir /repo/_build -j8 --timeout 900",
            "source_commits": vfprops.HOOK_COMMITS,
            "add_only": True,
        },
        "engines": vfprops.ENGINES,
        "checks": checks,
        "notes": vfprops.NOTES,
        "not_applicable": na,
    }
    with open(os.path.join(VERIF, "MANIFEST.json"), "w") as f:
        json.dump(man, f, indent=1)
        f.write("\n")
    return 0


# ---------------------------------------------------------------------------------------------------
# libFuzzer stages
# ---------------------------------------------------------------------------------------------------
def _fuzz_binary(stage):
    return vfbuild.build_driver(stage["driver"], "fuzz", stage["src"])


def _run_artifact(binary, path, timeout=120):
    env = env_for({"ASAN_OPTIONS": ASAN_ENV["ASAN_OPTIONS"].replace("detect_leaks=1", "detect_leaks=0")})
    try:
        r = subprocess.run([binary, "-detect_leaks=0", "-timeout=20", path], stdout=subprocess.PIPE, stderr=subprocess.STDOUT, env=env,
                           timeout=timeout, text=True, errors="replace")
        return r.returncode, r.stdout
    except subprocess.TimeoutExpired:
        return "timeout", ""


def stage_fuzz(pid, stage, tier, replay_path=None):
    binary = _fuzz_binary(stage)
    if tier == "replay":
        rc, out = _run_artifact(binary, replay_path)
        sys.stdout.write(out[-3000:])
        return rc != 0
    out = StageOutcome(stage["name"])
    cfg = stage[tier]
    wd = workdir(pid, stage["name"])
    corpus_src = os.path.join(VERIF, "corpus", stage["driver"])
    workers = cfg.get("workers", 4)
    base = seed_base()
    jobs = []
    for k in range(workers):
        cdir = os.path.join(wd, "corpus-%d" % k)
        os.makedirs(cdir)
        seeded = (k % 2 == 0)  # half of the workers start from the committed seed corpus, half from an empty one
        if seeded and os.path.isdir(corpus_src):
            for f in os.listdir(corpus_src):
                shutil.copyfile(os.path.join(corpus_src, f), os.path.join(cdir, f))
        adir = os.path.join(wd, "art-%d" % k) + "/"
        os.makedirs(adir)
        max_len = cfg.get("max_len_big", cfg.get("max_len", 1024)) if (k % 4 == 3) else cfg.get("max_len", 1024)
        env = env_for({"VF_STATS": os.path.join(wd, "stats-%d.json" % k),
                       "ASAN_OPTIONS": ASAN_ENV["ASAN_OPTIONS"].replace("detect_leaks=1", "detect_leaks=0")})
        cmd = [binary, cdir, "-runs=%d" % cfg.get("runs", 100000), "-seed=%d" % (base * 1000 + k + 1), "-max_len=%d" % max_len,
               "-artifact_prefix=" + adir, "-print_final_stats=1", "-timeout=25", "-rss_limit_mb=4096", "-detect_leaks=0",
               "-len_control=0" if k % 2 else "-len_control=100", "-use_value_profile=%d" % (1 if k % 4 == 1 else 0)]
        jobs.append((cmd, env, cfg.get("timeout", 7200), os.path.join(wd, "log-%d.txt" % k)))
    t0 = time.time()
    results = run_parallel(jobs)
    out.wall = time.time() - t0
    cov = []
    for k, (rc, _) in enumerate(results):
        st = load_stats(os.path.join(wd, "stats-%d.json" % k))
        if st:
            out.stats.append(st)
        log = jobs[k][3]
        m = re.search(r"cov: (\d+) ft: (\d+) corp: (\d+)", "".join(reversed(read_tail(log, 20000).splitlines(True)[-40:])))
        txt = read_tail(log, 20000)
        mm = re.findall(r"cov: (\d+) ft: (\d+) corp: (\d+)", txt)
        if mm:
            cov.append("w%d cov=%s ft=%s corp=%s" % (k, mm[-1][0], mm[-1][1], mm[-1][2]))
        adir = os.path.join(wd, "art-%d" % k)
        arts = sorted(os.listdir(adir))
        crashes = [a for a in arts if a.startswith("crash-")]
        slow = [a for a in arts if a.startswith(("timeout-", "oom-", "slow-unit-"))]
        if rc == "timeout":
            out.notes.append("worker %d hit the watchdog: inconclusive" % k)
        if crashes and not out.failure:
            art = os.path.join(adir, crashes[0])
            # minimise (bounded); fall back to the original artifact
            mini = os.path.join(wd, "min-%d" % k)
            try:
                subprocess.run([binary, "-minimize_crash=1", "-exact_artifact_path=" + mini, "-max_total_time=60", "-detect_leaks=0", art],
                               stdout=subprocess.PIPE, stderr=subprocess.STDOUT, env=jobs[k][1], timeout=180)
            except subprocess.TimeoutExpired:
                pass
            if os.path.exists(mini) and _run_artifact(binary, mini)[0] != 0:
                named = os.path.join(wd, "%s-min-%s" % (pid, crashes[0]))
                shutil.copyfile(mini, named)
                art = named
            why = sanitizer_summary(log)
            mo = re.search(r"ORACLE-FAILURE: ([^\n]*)", read_tail(log, 200000))
            if mo:
                why = mo.group(1)[:1500]
            out.failure = (art, why, stage, log)
            out.campaign = {"fuzz": True, "driver": stage["driver"], "seeded": (k % 2 == 0),
                            "args": [a for a in jobs[k][0][2:] if not a.startswith("-artifact_prefix=")]}
        for a in slow:
            # load noise unless it reproduces three times in isolation
            art = os.path.join(adir, a)
            hangs = sum(1 for _ in range(3) if _run_artifact(binary, art, timeout=60)[0] in ("timeout", 70))
            if hangs == 3 and a.startswith("timeout-") and not out.failure:
                out.failure = (art, "decode did not return within 20 s (reproduced 3 times)", stage, log)
            else:
                out.notes.append("%s not reproduced (%d/3): load noise" % (a, hangs))
        if rc not in (0, "timeout") and not crashes and not slow:
            out.notes.append("worker %d exited with status %s without an artifact (see %s)" % (k, rc, log))
    out.notes.append("; ".join(cov))
    return out


register_stage("fuzz", stage_fuzz)


# ---------------------------------------------------------------------------------------------------
# memcheck stage: cases dumped by an earlier (native) stage of the same run are replayed under valgrind
# ---------------------------------------------------------------------------------------------------
VALGRIND = ["valgrind", "-q", "--error-exitcode=0", "--track-origins=no", "--show-mismatched-frees=no", "--num-callers=12", "--child-silent-after-fork=no"]


def stage_memcheck(pid, stage, tier, replay_path=None):
    out = StageOutcome(stage["name"])
    out.driver = stage["driver"]
    cfg = stage[tier]
    binary = vfbuild.build_driver(stage["driver"], stage.get("variant", "plain"), stage["src"])
    src_dir = os.path.join(BUILD, "work", pid, stage["cases_from"])
    files = sorted(glob.glob(os.path.join(src_dir, "cases-*", "*.case")))[:cfg.get("max_cases", 300)]
    if not files:
        out.notes.append("no dumped cases found in %s" % src_dir)
        return out
    wd = workdir(pid, stage["name"])
    procs = cfg.get("procs", 8)
    chunks = [files[i::procs] for i in range(procs)]
    jobs = []
    for k, chunk in enumerate(chunks):
        if not chunk:
            continue
        cmd = VALGRIND + [binary, "--replay"] + chunk + ["--stats", os.path.join(wd, "stats-%d.json" % k), "--faildir", wd]
        jobs.append((cmd, env_for(), cfg.get("timeout", 3600), os.path.join(wd, "log-%d.txt" % k)))
    t0 = time.time()
    results = run_parallel(jobs)
    # A shard ended by SIGKILL / SIGTERM was stopped from outside (out-of-memory killer, operator): that says nothing about the
    # property.  It is re-run once on its own; if it is killed again the shard is inconclusive - noted, never a violation.
    killed_shards = []
    for k, (rc, _) in enumerate(results):
        if rc in (-9, -15):
            results[k] = run_proc(*jobs[k])
            if results[k][0] in (-9, -15):
                killed_shards.append(k)
    out.wall = time.time() - t0
    for k, (rc, _) in enumerate(results):
        if k in killed_shards:
            out.notes.append("shard %d was killed from outside twice (signal %d: out of memory?) - INCONCLUSIVE for its cases, not counted" % (k, -rc))
            continue
        st = load_stats(os.path.join(wd, "stats-%d.json" % k))
        if st:
            out.stats.append(st)
        log = jobs[k][3]
        txt = read_tail(log, 400000)
        m = re.search(r"^REPLAY-FAIL (\S+): (.*)$", txt, re.M)
        if m and not out.failure:
            out.failure = (m.group(1), m.group(2)[:1500], stage, log)
        elif rc == "timeout":
            out.notes.append("memcheck chunk %d hit the watchdog: inconclusive" % k)
        elif rc not in (0, 1) and not out.failure:
            out.notes.append("memcheck chunk %d exited with status %s" % (k, rc))
    return out


register_stage("memcheck", stage_memcheck)


# ---------------------------------------------------------------------------------------------------
# coverage-guided stage (DESIGN.md sec. 3.7): the rapidcheck driver's own translation unit built as a libFuzzer target
# (-DVF_CGF); input = binary field image of the Case, structural custom mutator, normalisation into the property's domain,
# the same oracle.  Seeds: the saved replays and a sample of rapidcheck-generated cases, converted by the asan driver.
# ---------------------------------------------------------------------------------------------------
CGF_FLAGS = ("-DVF_CGF", "-Dmain=vf_driver_main")


def stage_cgf(pid, stage, tier, replay_path=None):
    out = StageOutcome(stage["name"])
    out.driver = stage["driver"]
    cfg = stage[tier]
    if cfg is None:
        return out
    asan_bin = vfbuild.build_driver(stage["driver"], "asan", stage["src"])
    fuzz_bin = vfbuild.build_driver("cgf_" + stage["driver"][4:], "fuzz", stage["src"], CGF_FLAGS)
    wd = workdir(pid, stage["name"])
    base = seed_base()
    t0 = time.time()
    # seed corpus
    dump = os.path.join(wd, "seed-cases")
    seeds = os.path.join(wd, "seed-corpus")
    os.makedirs(dump)
    os.makedirs(seeds)
    env = env_for({"RC_PARAMS": "seed=%d max_success=%d max_size=100" % (base * 1000 + 777, cfg.get("seed_cases", 300))})
    run_proc([asan_bin, "--run", "--tier", "quick", "--dump-dir", dump, "--dump-every", "2", "--dump-max", "200",
              "--faildir", os.path.join(wd, "fails")], env, 600, os.path.join(wd, "seedgen-log.txt"))
    files = sorted(glob.glob(os.path.join(dump, "*.case")))
    if not (os.environ.get("VERIF_SKIP_REPLAYS") and os.environ.get("VERIF_REPO")):
        files += sorted(glob.glob(os.path.join(REPLAYS, pid, stage["driver"], "*.case")))
    for i in range(0, len(files), 200):
        run_proc([asan_bin, "--to-bin", seeds] + files[i:i + 200], env_for(), 600, os.path.join(wd, "tobin-log.txt"))
    workers = cfg.get("workers", 8)
    jobs = []
    for k in range(workers):
        cdir = os.path.join(wd, "corpus-%d" % k)
        os.makedirs(cdir)
        if k % 2 == 0 and not (os.environ.get("VERIF_CGF_NOSEED") and os.environ.get("VERIF_REPO")):
            for f in os.listdir(seeds):
                shutil.copyfile(os.path.join(seeds, f), os.path.join(cdir, f))
        adir = os.path.join(wd, "art-%d" % k) + "/"
        os.makedirs(adir)
        fdir = os.path.join(wd, "fails-%d" % k)
        os.makedirs(fdir)
        env = env_for({"VF_STATS": os.path.join(wd, "stats-%d.json" % k), "VF_FAILDIR": fdir,
                       "ASAN_OPTIONS": ASAN_ENV["ASAN_OPTIONS"].replace("detect_leaks=1", "detect_leaks=0")})
        cmd = [fuzz_bin, cdir, "-runs=%d" % cfg.get("runs", 10000), "-seed=%d" % (base * 1000 + k + 1), "-max_len=%d" % cfg.get("max_len", 65536),
               "-artifact_prefix=" + adir, "-print_final_stats=1", "-timeout=60", "-rss_limit_mb=4096", "-detect_leaks=0",
               "-use_value_profile=%d" % (1 if k % 4 in (1, 2) else 0)]
        jobs.append((cmd, env, cfg.get("timeout", 7200), os.path.join(wd, "log-%d.txt" % k)))
    results = run_parallel(jobs)
    out.wall = time.time() - t0
    cov = []
    for k, (rc, _) in enumerate(results):
        log = jobs[k][3]
        st = load_stats(os.path.join(wd, "stats-%d.json" % k))
        if st:
            out.stats.append(st)
        txt = read_tail(log, 400000)
        mm = re.findall(r"cov: (\d+) ft: (\d+) corp: (\d+)", txt)
        if mm:
            cov.append("w%d cov=%s ft=%s corp=%s" % (k, mm[-1][0], mm[-1][1], mm[-1][2]))
        if rc == 0:
            continue
        if rc in (-9, -15):
            out.notes.append("worker %d was killed from outside (signal %d): INCONCLUSIVE for its inputs" % (k, -rc))
            continue
        if rc == "timeout":
            out.notes.append("worker %d hit the watchdog: inconclusive" % k)
            continue
        found = fail_from_log(log)
        adir = os.path.join(wd, "art-%d" % k)
        arts = sorted(os.listdir(adir))
        crashes = [a for a in arts if a.startswith("crash-")]
        if found and os.path.exists(found[0]):
            if not out.failure:
                out.failure = (found[0], found[1], stage, log)
            continue
        if crashes:
            # a sanitizer report: the artifact is the binary image; the text case it stands for is the replay file
            case = os.path.join(wd, "%s-cgf-crash-w%d.case" % (pid, k))
            r = subprocess.run([asan_bin, "--from-bin", os.path.join(adir, crashes[0])], stdout=subprocess.PIPE, stderr=subprocess.DEVNULL, env=env_for())
            with open(case, "wb") as f:
                f.write(b"# crashed while running this case (coverage-guided stage)\n" + r.stdout)
            if not out.failure:
                out.failure = (case, "process died: " + sanitizer_summary(log), stage, log)
            continue
        slow = [a for a in arts if a.startswith(("timeout-", "oom-", "slow-unit-"))]
        if slow:
            out.notes.append("worker %d: %s (load noise unless it reproduces; not a verdict)" % (k, ", ".join(slow[:3])))
        else:
            out.notes.append("worker %d exited with status %s without an artifact (see %s)" % (k, rc, log))
    out.notes.append("; ".join(cov))
    return out


register_stage("cgf", stage_cgf)
