// C17 - the decoder keeps reassembly state only for messages still in progress (needs the verifPending hook).
#include "../common/gen_frames.h"

using namespace vf;

struct Case
{
    FrameHistory hist;
    uint32_t procSeed{0};    // procedural long run: frames derived deterministically from (procSeed, index)
    uint32_t procFrames{0};
    uint32_t procEndpoints{4};
    void io(Ar& a)
    {
        hist.io(a);
        a.num("procSeed", procSeed);
        a.num("procFrames", procFrames);
        a.num("procEndpoints", procEndpoints);
    }
};

struct Tracker
{
    lib::Decoder dec;
    model::Reassembler ref;
    std::set<model::EndpointKey> unknown;  // endpoints whose last CMP frame was header-only (statement is silent)
    bool interesting{false};
    size_t maxPending{0};

    Verdict step(const Bytes& b, size_t index)
    {
        size_t openBefore = ref.open.size();
        bool wasOpen = false;
        model::EndpointKey key{0, 0};
        bool isCmp = b.size() >= 8 && b[0] != 0;
        if (isCmp)
        {
            key = {wire::get16(b.data() + 2), b[5]};
            wasOpen = ref.open.count(key) != 0;
        }
        decodeOwned(dec, b);
        auto delivered = ref.feed(b);
        if (isCmp)
        {
            if (b.size() == 8)
                unknown.insert(key);
            else
                unknown.erase(key);
            bool nowOpen = ref.open.count(key) != 0;
            // abort / supersede / orphan / completion while another endpoint is pending
            size_t others = openBefore - (wasOpen ? 1 : 0);
            if (others > 0 && ((wasOpen && !nowOpen) || (!wasOpen && !nowOpen && delivered.empty() && b.size() > 8)))
                interesting = true;
            if (others > 0 && wasOpen && nowOpen && b.size() >= 24 && ((b[20] >> 2) & 3) == 1)
                interesting = true;  // superseded by a new first segment
        }
        auto pending = dec.verifPending();
        std::map<model::EndpointKey, size_t> got;
        for (const auto& p : pending)
        {
            model::EndpointKey k{p.deviceId, p.streamId};
            VF_CHECK(!got.count(k), "after frame " << index << ": endpoint " << k.first << "/" << int(k.second) << " listed twice");
            got[k] = p.bufferedBytes;
        }
        maxPending = std::max(maxPending, got.size());
        for (const auto& kv : got)
        {
            if (unknown.count(kv.first))
                continue;
            VF_CHECK(ref.open.count(kv.first), "after frame " << index << " (" << b.size() << " bytes): decoder holds pending data ("
                                                              << kv.second << " bytes) for endpoint " << kv.first.first << "/"
                                                              << int(kv.first.second) << " which has no message in progress");
        }
        for (const auto& kv : ref.open)
        {
            if (unknown.count(kv.first))
                continue;
            VF_CHECK(got.count(kv.first), "after frame " << index << ": endpoint " << kv.first.first << "/" << int(kv.first.second)
                                                         << " has a message in progress but the decoder holds nothing for it");
        }
        for (const auto& kv : got)
        {
            auto it = ref.open.find(kv.first);
            if (it == ref.open.end())
                continue;
            VF_CHECK(kv.second <= it->second.receivedSegmentBytes,
                     "after frame " << index << ": endpoint " << kv.first.first << "/" << int(kv.first.second) << " buffers " << kv.second
                                    << " bytes but only " << it->second.receivedSegmentBytes << " segment bytes were received");
        }
        return Verdict::pass();
    }

    Verdict finish(const std::set<model::EndpointKey>& endpoints, size_t index)
    {
        // closing traffic: one unsegmented message per endpoint -> nothing may stay pending
        for (const auto& k : endpoints)
        {
            FrameRecipe f;
            f.dev = k.first;
            f.stream = k.second;
            MsgRecipe m;
            m.len = 3;
            f.msgs.push_back(m);
            VF_TRY(step(f.build(), index++));
        }
        auto pending = dec.verifPending();
        VF_CHECK(pending.empty(), "after closing traffic the decoder still holds " << pending.size() << " pending entries");
        return Verdict::pass();
    }
};

static FrameRecipe proceduralFrame(uint32_t seed, uint32_t i, uint32_t nEndpoints, std::map<uint32_t, uint16_t>& nextSeq,
                                   std::map<uint32_t, bool>& open)
{
    uint32_t r = mix(seed, i);
    uint32_t e = mix(r, 1) % nEndpoints;
    FrameRecipe f;
    f.dev = static_cast<uint16_t>(1 + e / 3);
    f.stream = static_cast<uint8_t>(e % 3);
    f.seq = nextSeq[e];
    nextSeq[e] = static_cast<uint16_t>(f.seq + 1);
    MsgRecipe m;
    m.seed = r;
    m.len = mix(r, 2) % 24;
    m.ts = r;
    uint32_t shape = mix(r, 3) % 16;
    if (open[e])
    {
        // mostly continue, sometimes abort in the various ways
        if (shape < 7)
            m.seg = 2;
        else if (shape < 11)
        {
            m.seg = 3;
            open[e] = false;
        }
        else if (shape == 11)
        {
            m.seg = 0;
            open[e] = false;
        }
        else if (shape == 12)
        {
            m.seg = 2;
            f.seq = static_cast<uint16_t>(f.seq + 3);
            nextSeq[e] = static_cast<uint16_t>(f.seq + 1);
            open[e] = false;
        }
        else if (shape == 13)
        {
            m.seg = 3;
            f.version = 2;
            open[e] = false;
        }
        else if (shape == 14)
        {
            m.seg = 0;
            m.flags = 0x40;
            open[e] = false;
        }
        else
            m.seg = 1;  // supersede
    }
    else
    {
        if (shape < 6)
        {
            m.seg = 1;
            open[e] = true;
        }
        else if (shape < 10)
            m.seg = 0;
        else if (shape < 13)
            m.seg = static_cast<uint8_t>(2 + shape % 2);  // orphan
        else if (shape == 13)
            m.ptype = 0;
        else if (shape == 14)
        {
            f.truncateAt = 8 + static_cast<int32_t>(mix(r, 4) % 15) + 1;
        }
        else
            m.declared = static_cast<int32_t>(m.len + 5);
    }
    f.msgs.push_back(m);
    return f;
}

static Verdict runCase(const Case& c, Info& info)
{
    Tracker t;
    std::set<model::EndpointKey> endpoints;
    size_t idx = 0;
    for (const auto& f : c.hist.frames)
    {
        Bytes b = f.build();
        if (b.size() >= 8 && b[0] != 0)
            endpoints.insert({wire::get16(b.data() + 2), b[5]});
        VF_TRY(t.step(b, idx++));
    }
    if (c.procFrames)
    {
        std::map<uint32_t, uint16_t> nextSeq;
        std::map<uint32_t, bool> open;
        for (uint32_t i = 0; i < c.procFrames; ++i)
        {
            FrameRecipe f = proceduralFrame(c.procSeed, i, std::max<uint32_t>(1, c.procEndpoints), nextSeq, open);
            endpoints.insert({f.dev, f.stream});
            VF_TRY(t.step(f.build(), idx++));
            VF_CHECK(t.maxPending <= endpoints.size(), "more pending entries than endpoints");
        }
        info.tag("procedural_long_run");
        info.count("procedural_frames", c.procFrames);
    }
    VF_TRY(t.finish(endpoints, idx));
    if (t.interesting)
        info.tag("abort_or_completion_while_other_endpoint_pending");
    if (t.maxPending >= 2)
        info.tag("two_or_more_pending");
    info.count("frames", idx);
    info.nontrivial = t.interesting;
    return Verdict::pass();
}

// ---- bounded exhaustive enumeration over an abstract alphabet on two endpoints ----
static const int kSymbols = 22;
static FrameRecipe symbolFrame(int sym, uint16_t nextSeq[2], bool& advance, int& endpoint)
{
    FrameRecipe f;
    advance = true;
    if (sym >= 20)
    {
        endpoint = -1;
        advance = false;
        f.kind = 1;
        if (sym == 20)
            f.raw = tecmpSample(7);
        else
            f.raw = Bytes{1, 0, 0, 1, 1};  // 5-byte buffer
        return f;
    }
    endpoint = sym / 10;
    int s = sym % 10;
    f.dev = endpoint == 0 ? 1 : 2;
    f.stream = endpoint == 0 ? 0 : 5;
    f.seq = nextSeq[endpoint];
    MsgRecipe m;
    m.len = 3;
    m.seed = static_cast<uint32_t>(sym);
    switch (s)
    {
        case 0:
            m.seg = 0;
            break;
        case 1:
            m.seg = 1;
            break;
        case 2:
            m.seg = 2;
            break;
        case 3:
            m.seg = 3;
            break;
        case 4:
            m.seg = 2;
            f.seq = static_cast<uint16_t>(f.seq + 5);
            break;
        case 5:
            m.seg = 3;
            f.version = 2;
            break;
        case 6:
            m.seg = 3;
            f.msgType = 3;
            break;
        case 7:
            m.seg = 0;
            m.flags = 0x40;
            break;
        case 8:
            f.truncateAt = 12;
            break;
        case 9:
            // header-only frame
            nextSeq[endpoint] = static_cast<uint16_t>(f.seq + 1);
            return f;
    }
    f.msgs.push_back(m);
    nextSeq[endpoint] = static_cast<uint16_t>(f.seq + 1);
    return f;
}

static void enumerate(int tier, const std::function<bool(const Case&)>& emit)
{
    int maxLen = tier ? 4 : 3;
    for (uint16_t start : {uint16_t(10), uint16_t(65534)})
    {
        for (int len = 1; len <= maxLen; ++len)
        {
            std::vector<int> digits(static_cast<size_t>(len), 0);
            while (true)
            {
                Case c;
                uint16_t nextSeq[2] = {start, static_cast<uint16_t>(start + 100)};
                for (int d : digits)
                {
                    bool adv;
                    int ep;
                    c.hist.frames.push_back(symbolFrame(d, nextSeq, adv, ep));
                }
                if (!emit(c))
                    return;
                int k = len - 1;
                while (k >= 0 && ++digits[static_cast<size_t>(k)] == kSymbols)
                    digits[static_cast<size_t>(k--)] = 0;
                if (k < 0)
                    break;
            }
        }
    }
    // long procedural runs: memory must stay at the baseline however long the traffic runs
    for (uint32_t s = 1; s <= (tier ? 8u : 2u); ++s)
    {
        Case c;
        c.procSeed = s;
        c.procFrames = tier ? 250000 : 30000;
        c.procEndpoints = s % 2 ? 6 : 600;
        if (!emit(c))
            return;
    }
}

int main(int argc, char** argv)
{
    Property<Case> prop;
    prop.id = "C17";
    prop.gen = [](int tier) {
        HistoryGenParams p;
        p.maxFrames = tier ? 200 : 60;
        p.endpoints = 4;
        p.allowGarbage = false;
        p.bigSegmentHistories = 12;
        p.manyEndpoints = 12;
        return rc::gen::exec([p]() {
            Case c;
            c.hist = *range<int>(0, 9) == 0 ? *genLongGapHistory() : *genFrameHistory(p);
            return c;
        });
    };
    prop.run = runCase;
    // coverage-guided mode: histories of the shapes this check's reference model is meant for - a frame holds unsegmented messages and / or
    // ends with exactly one segment; what follows a segment is not a message (zeros, fewer than 16 bytes, or bytes whose payload-type
    // byte is 0); raw buffers are short (< 8 bytes) or take the TECMP route; no procedural long run
    prop.normalize = [](Case& c) {
        c.procFrames = 0;
        c.procSeed = 0;
        c.procEndpoints = 4;
        boundHistory(c.hist, 300, 600000);
        for (auto& f : c.hist.frames)
        {
            if (f.kind == 1)
            {
                if (f.raw.size() >= 8)
                    f.raw[0] = 0;  // TECMP route: no effect on CMP endpoints
                continue;
            }
            if (f.version == 0)
                f.version = 1;  // version byte 0 would route the frame to the TECMP decoder
            for (size_t k = 0; k < f.msgs.size(); ++k)
                if (f.msgs[k].seg != 0)
                {
                    f.msgs.resize(k + 1);  // nothing behind a segment but non-message bytes
                    if (f.trailing.size() >= 14)
                        f.trailing[13] = 0;
                    break;
                }
        }
    };
    prop.smartMutate = [](Case& c, MutRng& rng) { smartMutateHistory(c.hist, rng); };
    prop.enumerate = enumerate;
    prop.enumerationIsExhaustive = true;
    prop.enumerationNote = "all sequences up to length 3 (quick) / 4 (thorough) over a 22-symbol frame alphabet on two endpoints, two "
                           "start counters (10 and 65534), plus long procedural runs";
    return pbtMain(argc, argv, prop);
}
