// C04 - decoded packets report exactly what is on the wire (independent frame walker + 3-valued validators).
#include "../common/gen_frames.h"

using namespace vf;

struct WireMsg
{
    uint8_t ptype{0x20};
    uint8_t variant{0};  // 0 well-formed, 1 inner length beyond the payload, 2 shorter than its header, 3 bus-error flag, 4 slack after the data
    uint8_t tweak{0};
    uint32_t seed{0};
    uint32_t len{0};
    uint64_t ts{0};
    uint32_t idWord{0};
    uint8_t flags{0};
    void io(Ar& a)
    {
        a.num("ptype", ptype);
        a.num("variant", variant);
        a.num("tweak", tweak);
        a.num("seed", seed);
        a.num("len", len);
        a.num("ts", ts);
        a.num("idWord", idWord);
        a.num("flags", flags);
    }
};

struct Case
{
    FrameHistory prior;
    uint8_t version{1};
    uint16_t dev{0};
    uint8_t stream{0};
    uint8_t msgType{1};
    uint16_t seq{0};
    std::vector<WireMsg> msgs;
    int32_t truncateAt{-1};
    uint16_t zeroPad{0};
    void io(Ar& a)
    {
        prior.io(a);
        a.num("version", version);
        a.num("dev", dev);
        a.num("stream", stream);
        a.num("msgType", msgType);
        a.num("seq", seq);
        a.vec("msgs", msgs);
        a.num("truncateAt", truncateAt);
        a.num("zeroPad", zeroPad);
    }
};

static uint8_t recipeKindFor(model::Kind k)
{
    switch (k)
    {
        case model::Kind::can:
            return rkCan;
        case model::Kind::canFd:
            return rkCanFd;
        case model::Kind::lin:
            return rkLin;
        case model::Kind::analog:
            return rkAnalog;
        case model::Kind::ethernet:
            return rkEthernet;
        case model::Kind::cmStatus:
            return rkCmStatus;
        case model::Kind::ifStatus:
            return rkIfStatus;
        default:
            return rkGeneric;
    }
}

static Bytes buildPayload(uint8_t msgType, const WireMsg& m)
{
    model::Kind k = model::kindOf(msgType, m.ptype);
    PacketRecipe r;
    r.kind = recipeKindFor(k);
    r.msgType = msgType;
    r.ptype = m.ptype;
    r.seed = m.seed;
    r.len = std::min<uint32_t>(m.len, PacketRecipe::maxLen(r.kind));
    if (k == model::Kind::generic)
        return r.len ? fillBytes(m.seed, r.len) : Bytes{};
    RecipeFields f = deriveFields(r);
    Bytes b = oracleBytes(r, f);
    size_t hs = 0;
    switch (k)
    {
        case model::Kind::can:
        case model::Kind::canFd:
            hs = wire::kCanHeader;
            break;
        case model::Kind::lin:
            hs = wire::kLinHeader;
            break;
        case model::Kind::ethernet:
            hs = wire::kEthHeader;
            break;
        case model::Kind::analog:
            hs = wire::kAnalogHeader;
            break;
        case model::Kind::cmStatus:
            hs = wire::kCmStatusHeader;
            break;
        case model::Kind::ifStatus:
            hs = wire::kIfStatusHeader;
            break;
        default:
            break;
    }
    switch (m.variant)
    {
        case 1:  // an inner length field points beyond the payload
            switch (k)
            {
                case model::Kind::can:
                case model::Kind::canFd:
                    if (f.data.size() < 255)
                        b[15] = static_cast<uint8_t>(std::min<size_t>(255, f.data.size() + 1 + m.tweak % 8));
                    break;
                case model::Kind::lin:
                    if (f.data.size() < 255)
                        b[7] = static_cast<uint8_t>(std::min<size_t>(255, f.data.size() + 1 + m.tweak % 8));
                    break;
                case model::Kind::ethernet:
                    if (m.tweak >= 200)
                        wire::set16(b.data() + 4, static_cast<uint16_t>(0xFFFF - (m.tweak - 200) % 40));  // close to the 16-bit wrap
                    else
                        wire::set16(b.data() + 4, static_cast<uint16_t>(std::min<size_t>(65535, f.data.size() + 1 + m.tweak)));
                    break;
                case model::Kind::analog:
                    b[1] = static_cast<uint8_t>((b[1] & ~3) | (2 + m.tweak % 2));  // undefined sample type (don't care)
                    break;
                case model::Kind::cmStatus:
                {
                    wire::CmVar v;
                    if (wire::walkCm(b.data(), b.size(), v))
                    {
                        int which = m.tweak % 5;
                        size_t lenOff = v.off[which] - 2;
                        size_t beyond = b.size() - v.off[which] + 1 + (m.tweak / 5);
                        if (m.tweak >= 200)
                            beyond = 0xFFFF - (m.tweak - 200) % 40;
                        wire::set16(b.data() + lenOff, static_cast<uint16_t>(std::min<size_t>(65535, beyond)));
                    }
                    break;
                }
                case model::Kind::ifStatus:
                {
                    wire::IfVar v;
                    if (wire::walkIf(b.data(), b.size(), v))
                    {
                        if (m.tweak % 2)
                            wire::set16(b.data() + v.idsOff - 2, static_cast<uint16_t>(std::min<size_t>(65535, b.size() - v.idsOff + (m.tweak / 2) % 4)));
                        else
                            wire::set16(b.data() + v.vendorOff - 2, static_cast<uint16_t>(std::min<size_t>(65535, v.vendorLen + 1 + m.tweak / 2)));
                    }
                    break;
                }
                default:
                    break;
            }
            break;
        case 2:  // cut inside / right after the fixed header
            b.resize(std::min<size_t>(b.size(), (hs + 1) ? m.tweak % (hs + 1) : 0));
            if (k == model::Kind::cmStatus || k == model::Kind::ifStatus)
            {
                // also: fixed header present but the length-prefixed part missing or cut
                Bytes full = oracleBytes(r, f);
                if (m.tweak & 0x80)
                {
                    b = full;
                    b.resize(std::min<size_t>(full.size(), hs + (m.tweak & 0x7F) % (full.size() - hs + 1)));
                }
            }
            break;
        case 3:  // bus error flags
            if (k == model::Kind::can || k == model::Kind::canFd)
            {
                uint16_t bit = static_cast<uint16_t>(1u << (m.tweak % 10));
                wire::set16(b.data(), static_cast<uint16_t>(wire::get16(b.data()) | bit));
            }
            else if (k == model::Kind::ethernet)
            {
                static const uint16_t bits[] = {0x0001, 0x0008, 0x0010, 0x0020, 0x0002, 0x0004, 0x0040};
                wire::set16(b.data(), static_cast<uint16_t>(wire::get16(b.data()) | bits[m.tweak % 7]));
            }
            else if (k == model::Kind::lin)
            {
                wire::set16(b.data(), static_cast<uint16_t>(wire::get16(b.data()) | (1u << (m.tweak % 8))));
            }
            break;
        case 4:  // slack bytes after the data
        {
            Bytes extra = fillBytes(m.seed ^ 0x5A5A, 1 + m.tweak % 16);
            wire::putBytes(b, extra);
            break;
        }
        default:
            break;
    }
    if (b.size() > 65535)
        b.resize(65535);
    return b;
}

static Bytes buildFrame(const Case& c)
{
    Bytes b;
    wire::CmpHdr h{c.version, 0, c.dev, c.msgType, c.stream, c.seq};
    wire::putCmpHdr(b, h);
    for (const auto& m : c.msgs)
    {
        Bytes pl = buildPayload(c.msgType, m);
        wire::MsgHdr mh;
        mh.timestamp = m.ts;
        mh.idWord = m.idWord;
        mh.flags = static_cast<uint8_t>(m.flags & ~(wire::kFlagSegMask | wire::kFlagError));
        mh.payloadType = m.ptype;
        mh.length = static_cast<uint16_t>(pl.size());
        wire::putMsgHdr(b, mh);
        wire::putBytes(b, pl);
    }
    if (c.truncateAt >= 0 && static_cast<size_t>(c.truncateAt) < b.size())
        b.resize(static_cast<size_t>(c.truncateAt));
    else
        b.insert(b.end(), c.zeroPad, 0);
    return b;
}

static Verdict runCase(const Case& c, Info& info)
{
    lib::Decoder dec;
    for (const auto& f : c.prior.frames)
        decodeOwned(dec, f.build());

    Bytes frame = buildFrame(c);
    auto got = decodeOwned(dec, frame);
    model::WalkedFrame w = model::walkFrame(frame);

    VF_CHECK(got.size() == w.messages.size(), "decoder returned " << got.size() << " packets, the frame (" << frame.size() << " bytes) holds "
                                                                  << w.messages.size() << " complete valid messages");
    std::set<int> kinds;
    size_t nWell = 0, nInvalid = 0, nDontCare = 0;
    for (size_t i = 0; i < got.size(); ++i)
    {
        VF_CHECK(got[i] != nullptr, "null packet " << i);
        Snap g = snap(*got[i]);
        const model::WalkedMessage& m = w.messages[i];
        const uint8_t* pl = frame.data() + m.payloadOffset;
        std::ostringstream where;
        where << "message " << i << " (type byte " << int(m.hdr.payloadType) << ", " << m.hdr.length << " bytes)";
        VF_CHECK(g.hasPayload, where.str() << ": no payload object");
        VF_CHECK(g.device == w.hdr.device, where.str() << ": device " << g.device << " wire " << w.hdr.device);
        VF_CHECK(g.stream == w.hdr.stream, where.str() << ": stream " << int(g.stream) << " wire " << int(w.hdr.stream));
        VF_CHECK(g.version == w.hdr.version, where.str() << ": version " << int(g.version) << " wire " << int(w.hdr.version));
        VF_CHECK(g.ts == m.hdr.timestamp, where.str() << ": timestamp " << g.ts << " wire " << m.hdr.timestamp);
        VF_CHECK(g.flags == m.hdr.flags, where.str() << ": flags " << int(g.flags) << " wire " << int(m.hdr.flags));
        VF_CHECK(g.payloadLength == m.hdr.length, where.str() << ": length " << g.payloadLength << " wire " << m.hdr.length);
        if (w.hdr.msgType == wire::kMtData)
            VF_CHECK(g.ifId == m.hdr.interfaceId(), where.str() << ": interface id " << g.ifId << " wire " << m.hdr.interfaceId());
        if (w.hdr.msgType == wire::kMtStatus || w.hdr.msgType == wire::kMtVendor)
            VF_CHECK(g.vendorId == m.hdr.vendorId(), where.str() << ": vendor id " << g.vendorId << " wire " << m.hdr.vendorId());
        model::Judge j = model::judgePayload(w.hdr.msgType, m.hdr.payloadType, pl, m.hdr.length);
        kinds.insert(static_cast<int>(model::kindOf(w.hdr.msgType, m.hdr.payloadType)));
        if (j == model::Judge::wellFormed)
        {
            VF_CHECK(g.valid, where.str() << ": well-formed payload returned invalid");
            ++nWell;
        }
        else if (j == model::Judge::mustBeInvalid)
        {
            VF_CHECK(!g.valid, where.str() << ": payload inconsistent with its length / carrying bus-error flags returned as valid: " << g.str());
            ++nInvalid;
        }
        else
            ++nDontCare;
        // type and bytes are compared for every packet that is not the library's marker for a rejected payload (32-bit type 0):
        // also for frames of message type 0, whose packets are not "valid" but still report what is on the wire
        if (g.valid || g.type32 != 0)
        {
            VF_CHECK(g.msgType == w.hdr.msgType, where.str() << ": message type " << int(g.msgType) << " wire " << int(w.hdr.msgType));
            VF_CHECK(g.rawType == m.hdr.payloadType, where.str() << ": payload type " << int(g.rawType) << " wire " << int(m.hdr.payloadType));
            VF_CHECK(g.type32 == ((static_cast<uint32_t>(w.hdr.msgType) << 8) | m.hdr.payloadType), where.str() << ": 32-bit payload type 0x" << std::hex << g.type32);
            VF_CHECK(g.payload.size() == m.hdr.length && (m.hdr.length == 0 || memcmp(g.payload.data(), pl, m.hdr.length) == 0),
                     where.str() << ": payload bytes differ from the wire");
        }
    }
    // what the frame would have held without truncation / padding
    Case full = c;
    full.truncateAt = -1;
    full.zeroPad = 0;
    size_t fullCount = model::walkFrame(buildFrame(full)).messages.size();
    if (kinds.size() >= 2)
        info.tag("two_or_more_payload_kinds");
    if (c.truncateAt >= 0 && fullCount != w.messages.size())
        info.tag("truncation_removes_messages");
    if (c.truncateAt < 0 && c.zeroPad)
        info.tag("zero_padded");
    if (!c.prior.frames.empty())
        info.tag("prior_history");
    if (frame.size() > 65536 + 24 && got.size() >= 2)
        info.tag("frame_larger_than_64KiB_with_several_messages");
    if (nInvalid)
        info.tag("has_must_be_invalid_payload");
    if (nDontCare)
        info.tag("has_dont_care_payload");
    info.count("messages_well_formed", nWell);
    info.count("messages_must_be_invalid", nInvalid);
    info.count("messages_dont_care", nDontCare);
    info.nontrivial = !got.empty() && (kinds.size() >= 2 || (c.truncateAt >= 0 && fullCount != w.messages.size()) || !c.prior.frames.empty() || nInvalid);
    return Verdict::pass();
}

static rc::Gen<Case> genCase(int tier)
{
    return rc::gen::exec([tier]() {
        Case c;
        if (*range<int>(0, 2) == 0)
        {
            HistoryGenParams p;
            p.maxFrames = tier ? 30 : 12;
            c.prior = *genFrameHistory(p);
        }
        c.version = *rc::gen::weightedOneOf<uint8_t>({{2, rc::gen::just<uint8_t>(1)}, {1, range<uint8_t>(1, 255)}});
        c.dev = *rc::gen::weightedOneOf<uint16_t>({{1, rc::gen::element<uint16_t>(1, 2)}, {2, anyInt<uint16_t>()}});
        c.stream = *rc::gen::weightedOneOf<uint8_t>({{1, rc::gen::element<uint8_t>(0, 5)}, {2, anyInt<uint8_t>()}});
        c.msgType = *rc::gen::weightedOneOf<uint8_t>({{6, rc::gen::just<uint8_t>(1)}, {4, rc::gen::just<uint8_t>(3)}, {2, rc::gen::element<uint8_t>(2, 0xFF, 0)}, {1, range<uint8_t>(0, 255)}});
        c.seq = *anyInt<uint16_t>();
        int n = *range<int>(0, tier ? 8 : 5);
        // one case in twelve: a frame of more than 64 KiB (several messages of tens of thousands of bytes) - offsets and remaining
        // sizes beyond what 16 bits hold; one in twelve: a single message at the top of the 16-bit length range
        const int sizeClass = *range<int>(0, 11);
        if (sizeClass == 0)
            n = *range<int>(2, 5);
        for (int i = 0; i < n; ++i)
        {
            WireMsg m;
            if (c.msgType == 1)
                m.ptype = *rc::gen::weightedOneOf<uint8_t>({{8, rc::gen::element<uint8_t>(1, 2, 3, 7, 8)}, {1, rc::gen::element<uint8_t>(0x20, 0x04, 0xFF)}, {1, range<uint8_t>(1, 255)}});
            else if (c.msgType == 3)
                m.ptype = *rc::gen::weightedOneOf<uint8_t>({{8, rc::gen::element<uint8_t>(1, 2)}, {1, rc::gen::element<uint8_t>(3, 4, 0xFF)}, {1, range<uint8_t>(1, 255)}});
            else
                m.ptype = *range<uint8_t>(1, 255);
            m.variant = *rc::gen::weightedElement<uint8_t>({{6, 0}, {3, 1}, {2, 2}, {2, 3}, {1, 4}});
            m.tweak = *anyInt<uint8_t>();
            m.seed = *rc::gen::arbitrary<uint32_t>();
            m.len = *rc::gen::weightedOneOf<uint32_t>({{1, rc::gen::just<uint32_t>(0)}, {6, range<uint32_t>(0, 64)}, {1, range<uint32_t>(0, tier ? 3000 : 400)}});
            if (sizeClass == 0 && *range<int>(0, 3) != 0)
                m.len = *rc::gen::weightedOneOf<uint32_t>({{2, range<uint32_t>(20000, 45000)}, {1, range<uint32_t>(65400, 65535)}, {1, range<uint32_t>(1000, 65535)}});
            else if (sizeClass == 1 && i == 0)
                m.len = *range<uint32_t>(65400, 65535);
            m.ts = *anyInt<uint64_t>();
            m.idWord = *anyInt<uint32_t>();
            m.flags = *anyInt<uint8_t>();
            c.msgs.push_back(m);
        }
        int tail = *range<int>(0, 3);
        if (tail == 1)
        {
            Case tmp = c;
            size_t full = buildFrame(tmp).size();
            c.truncateAt = *range<int32_t>(0, static_cast<int32_t>(full));
        }
        else if (tail == 2)
            c.zeroPad = *range<uint16_t>(1, 64);
        return c;
    });
}

int main(int argc, char** argv)
{
    Property<Case> prop;
    prop.id = "C04";
    prop.gen = genCase;
    prop.run = runCase;
    // coverage-guided mode: version != 0 (a CMP frame), payload type bytes != 0 (a message, not padding); every other field value is
    // a legal wire value; bounded work
    prop.normalize = [](Case& c) {
        boundHistory(c.prior, 40, 200000);
        if (c.version == 0)
            c.version = 1;
        if (c.msgs.size() > 10)
            c.msgs.resize(10);
        for (auto& m : c.msgs)
        {
            if (m.ptype == 0)
                m.ptype = 0x20;
            if (m.variant > 4)
                m.variant = static_cast<uint8_t>(m.variant % 5);
            if (m.len > 65535)
                m.len = 65535;
        }
        if (c.truncateAt < -1)
            c.truncateAt = -1;
        if (c.zeroPad > 4096)
            c.zeroPad = static_cast<uint16_t>(c.zeroPad % 4097);
    };
    return pbtMain(argc, argv, prop);
}
