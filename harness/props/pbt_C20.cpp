// C20 - outputs never contain or depend on uninitialised memory.
//  (a) definedness: under valgrind memcheck every output byte is checked with VALGRIND_CHECK_MEM_IS_DEFINED and any memcheck
//      error raised while a case runs fails the case ("no decision depends on an uninitialised value");
//  (b) differential: natively, operator new fills fresh blocks with 0xAA resp. 0x55 and the same case run twice on fresh
//      objects must give bit-identical outputs.
#include <valgrind/memcheck.h>
#include <valgrind/valgrind.h>

#include <new>

#include "../common/workloads.h"

using namespace vf;

// ---- poisoning allocator (native runs only: filling would make the memory "defined" for memcheck) ----
static unsigned char g_fill = 0xAA;
static bool g_poison = false;

static void* poisonedAlloc(std::size_t n)
{
    // natively the block is over-allocated by 16 bytes and the tail is filled too, so that a read just past the end of a
    // block depends on the fill pattern as well (under valgrind the exact size is allocated and nothing is filled)
    const std::size_t slack = g_poison ? 16 : 0;
    void* p = malloc((n ? n : 1) + slack);
    if (!p)
        throw std::bad_alloc();
    if (g_poison)
        memset(p, g_fill, n + slack);
    return p;
}
void* operator new(std::size_t n)
{
    return poisonedAlloc(n);
}
void* operator new[](std::size_t n)
{
    return poisonedAlloc(n);
}
void operator delete(void* p) noexcept
{
    free(p);
}
void operator delete[](void* p) noexcept
{
    free(p);
}
void operator delete(void* p, std::size_t) noexcept
{
    free(p);
}
void operator delete[](void* p, std::size_t) noexcept
{
    free(p);
}

struct Case
{
    Workload w;
    void io(Ar& a)
    {
        w.io(a);
    }
};

static Verdict runCase(const Case& c, Info& info)
{
    const bool underValgrind = RUNNING_ON_VALGRIND != 0;
    size_t undefinedReports = 0;
    std::string firstUndefined;
    auto run = [&](unsigned char fill, bool inspect) {
        OutputSink out;
        if (inspect)
            out.inspect = [&](const void* p, size_t n, const char* what) {
                if (VALGRIND_CHECK_MEM_IS_DEFINED(p, n) != 0)
                {
                    if (!undefinedReports)
                        firstUndefined = what;
                    ++undefinedReports;
                }
            };
        out.tail = 16;
        g_fill = fill;
        g_poison = !underValgrind;
        runWorkload(c.w, out);
        g_poison = false;
        return out;
    };
    unsigned long errorsBefore = VALGRIND_COUNT_ERRORS;
    OutputSink a = run(0xAA, underValgrind);
    unsigned long errorsAfter = VALGRIND_COUNT_ERRORS;
    VF_CHECK(undefinedReports == 0, "output '" << firstUndefined << "' contains uninitialised bytes (" << undefinedReports << " memcheck reports)");
    VF_CHECK(errorsAfter == errorsBefore, "memcheck raised " << (errorsAfter - errorsBefore) << " error(s) while the case ran (use of an uninitialised value in a decision / invalid access)");
    if (!underValgrind)
    {
        OutputSink b = run(0x55, false);
        VF_CHECK(a.digest == b.digest && a.bytes == b.bytes, "outputs differ between runs with fresh heap blocks filled with 0xAA and with 0x55 (digests " << std::hex << a.digest << " / " << b.digest << ")");
    }
    static const char* names[] = {"encoder", "decoder", "tecmp_static_decoder", "status", "payload_builders", "codec_round_trip"};
    info.tag(std::string("workload_") + names[c.w.kind % 6]);
    bool weighted = false;
    for (const auto& e : c.w.enc)
    {
        if (e.minB > 60)
            info.tag("padded_frames_likely"), weighted = true;
        for (const auto& p : e.packets)
            if (p.messageType() != wire::kMtData)
                info.tag("non_data_message_id_bytes_unused"), weighted = true;
    }
    if (c.w.kind == 1 || c.w.kind == 2 || c.w.kind == 3 || c.w.kind == 4)
        weighted = true;
    info.tag(underValgrind ? "under_memcheck" : "poisoned_heap_differential");
    info.count("output_bytes", a.bytes);
    info.nontrivial = weighted && a.bytes > 0;
    return Verdict::pass();
}

int main(int argc, char** argv)
{
    Property<Case> prop;
    prop.id = "C20";
    prop.gen = [](int tier) {
        return rc::gen::map(genWorkload(tier), [](Workload w) {
            Case c;
            c.w = std::move(w);
            return c;
        });
    };
    prop.run = runCase;
    return pbtMain(argc, argv, prop);
}
