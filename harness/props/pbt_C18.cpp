// C18 - endpoints are isolated from each other (metamorphic projection onto one endpoint, no model).
#include "../common/gen_frames.h"

using namespace vf;

static Verdict runCase(const FrameHistory& c, Info& info)
{
    std::vector<Bytes> frames;
    for (const auto& f : c.frames)
        frames.push_back(f.build());

    auto endpointOf = [](const Bytes& b, model::EndpointKey& k) {
        if (b.size() < 8 || b[0] == 0)
            return false;
        k = {wire::get16(b.data() + 2), b[5]};
        return true;
    };

    // whole history on one decoder
    std::vector<std::vector<Snap>> whole(frames.size());
    {
        lib::Decoder dec;
        for (size_t i = 0; i < frames.size(); ++i)
        {
            auto got = decodeOwned(dec, frames[i]);
            model::EndpointKey k;
            bool cmp = endpointOf(frames[i], k);
            for (const auto& p : got)
            {
                VF_CHECK(p != nullptr, "frame " << i << ": null packet");
                whole[i].push_back(snap(*p));
                if (cmp)
                    VF_CHECK(whole[i].back().device == k.first && whole[i].back().stream == k.second,
                             "frame " << i << " of endpoint " << k.first << "/" << int(k.second) << " delivered a packet tagged "
                                      << whole[i].back().device << "/" << int(whole[i].back().stream));
            }
        }
    }
    // projections
    std::map<model::EndpointKey, std::vector<size_t>> byEndpoint;
    for (size_t i = 0; i < frames.size(); ++i)
    {
        model::EndpointKey k;
        if (endpointOf(frames[i], k))
            byEndpoint[k].push_back(i);
    }
    size_t deliveredAfterForeign = 0;
    for (const auto& kv : byEndpoint)
    {
        lib::Decoder dec;
        for (size_t j = 0; j < kv.second.size(); ++j)
        {
            size_t i = kv.second[j];
            auto got = decodeOwned(dec, frames[i]);
            VF_CHECK(got.size() == whole[i].size(), "endpoint " << kv.first.first << "/" << int(kv.first.second) << " frame " << i << ": alone it delivers "
                                                                << got.size() << " packets, inside the full history " << whole[i].size());
            for (size_t k = 0; k < got.size(); ++k)
            {
                Snap s = snap(*got[k]);
                VF_CHECK(s == whole[i][k], "endpoint " << kv.first.first << "/" << int(kv.first.second) << " frame " << i << " packet " << k
                                                       << " differs: alone " << s.str() << " in full history " << whole[i][k].str());
            }
        }
    }
    // classification: a reassembled delivery whose message was interrupted by foreign frames
    {
        model::Reassembler ref;
        std::map<model::EndpointKey, bool> foreignSinceOpen;
        for (size_t i = 0; i < frames.size(); ++i)
        {
            model::EndpointKey k;
            bool cmp = endpointOf(frames[i], k);
            for (auto& kv : foreignSinceOpen)
                if (!cmp || kv.first != k)
                    if (ref.open.count(kv.first))
                        kv.second = true;
            auto d = ref.feed(frames[i]);
            for (const auto& x : d)
                if (x.reassembled && foreignSinceOpen[k])
                    ++deliveredAfterForeign;
            if (cmp && ref.open.count(k) && !foreignSinceOpen.count(k))
                foreignSinceOpen[k] = false;
            if (cmp && !ref.open.count(k))
                foreignSinceOpen.erase(k);
        }
    }
    if (byEndpoint.size() >= 2)
        info.tag("two_or_more_endpoints");
    if (deliveredAfterForeign)
        info.tag("message_delivered_after_foreign_frames_between_its_segments");
    for (const auto& f : c.frames)
    {
        if (f.kind == 1 && !f.raw.empty() && f.raw[0] == 0)
            info.tag("has_tecmp_frame");
        if (f.kind == 1 && f.raw.size() < 8)
            info.tag("has_short_buffer");
    }
    info.count("frames", frames.size());
    info.count("interrupted_deliveries", deliveredAfterForeign);
    info.nontrivial = byEndpoint.size() >= 2 && deliveredAfterForeign > 0;
    return Verdict::pass();
}

int main(int argc, char** argv)
{
    Property<FrameHistory> prop;
    prop.id = "C18";
    prop.gen = [](int tier) {
        HistoryGenParams p;
        p.maxFrames = tier ? 120 : 50;
        p.endpoints = 4;
        p.allowGarbage = true;
        p.bigSegmentHistories = 16;
        p.manyEndpoints = 12;
        // one history in eight: long gaps full of other endpoints' first segments between the segments of one message
        return rc::gen::exec([p]() { return *range<int>(0, 7) == 0 ? *genLongGapHistory() : *genFrameHistory(p); });
    };
    prop.run = runCase;
    prop.normalize = [](FrameHistory& h) { boundHistory(h, 400); };
    prop.smartMutate = smartMutateHistory;
    return pbtMain(argc, argv, prop);
}
