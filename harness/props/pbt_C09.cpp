// C09 - frame headers carry consecutive sequence counters and the encoder's identity (stateful model).
#include "../common/gen_enc.h"

using namespace vf;

struct EncOp
{
    uint8_t op{0};  // 0 setDeviceId, 1 setStreamId, 2 restart, 3 encode(batch), 4 encodeMany(n one-byte packets, max 25), 5 encode(single packet overload), 6 encode(shared_ptr iterators)
    uint32_t arg{0};
    EncCase batch;  // dev/stream unused

    void io(Ar& a)
    {
        a.num("op", op);
        a.num("arg", arg);
        batch.io(a);
    }
};

struct OpSeq
{
    std::vector<EncOp> ops;
    void io(Ar& a)
    {
        a.vec("ops", ops);
    }
};

static Verdict runCase(const OpSeq& c, Info& info)
{
    lib::Encoder enc;
    uint16_t dev = 0, counter = 0;
    uint8_t stream = 0;
    bool emitted = false, wrapped = false, changeAfterEmit = false, encodeAfterChange = false, sameValueSet = false, emptyBatchAfterFrames = false;

    auto checkFrames = [&](const std::vector<std::vector<uint8_t>>& frames, uint8_t version, const std::vector<lib::Packet>& batch,
                           size_t opIndex) -> Verdict {
        size_t pkt = 0, pos = 0;
        for (size_t fi = 0; fi < frames.size(); ++fi)
        {
            const Bytes& f = frames[fi];
            VF_CHECK(f.size() >= wire::kCmpHeader, "op " << opIndex << " frame " << fi << " shorter than a header");
            wire::CmpHdr h = wire::getCmpHdr(f.data());
            uint16_t expected = static_cast<uint16_t>(counter + 1);
            VF_CHECK(h.seq == expected, "op " << opIndex << " frame " << fi << " has sequence counter " << h.seq << ", expected " << expected);
            if (expected == 0)
                wrapped = true;
            counter = expected;
            VF_CHECK(h.version == version, "op " << opIndex << " frame " << fi << " version " << int(h.version) << " != " << int(version));
            VF_CHECK(h.device == dev, "op " << opIndex << " frame " << fi << " device " << h.device << " != " << dev);
            VF_CHECK(h.stream == stream, "op " << opIndex << " frame " << fi << " stream " << int(h.stream) << " != " << int(stream));
            VF_CHECK(h.reserved == 0, "op " << opIndex << " frame " << fi << " reserved byte " << int(h.reserved));
            // message type = type of the packets whose chunks the frame carries (attributed by byte count)
            size_t o = wire::kCmpHeader;
            while (f.size() - o >= wire::kMsgHeader && pkt < batch.size())
            {
                // packets without payload bytes put no message on the wire (they can still open a frame of their own)
                while (pkt < batch.size() && batch[pkt].getPayloadLength() == 0)
                    ++pkt;
                if (pkt == batch.size())
                    break;
                wire::MsgHdr mh = wire::getMsgHdr(f.data() + o);
                if (mh.payloadType == 0 || o + wire::kMsgHeader + mh.length > f.size())
                    break;
                uint8_t mt = static_cast<uint8_t>(batch[pkt].getMessageType());
                VF_CHECK(h.msgType == mt, "op " << opIndex << " frame " << fi << " announces message type " << int(h.msgType)
                                                << " but carries packet " << pkt << " of type " << int(mt));
                pos += mh.length;
                if (pos >= batch[pkt].getPayloadLength())
                {
                    ++pkt;
                    pos = 0;
                }
                o += wire::kMsgHeader + mh.length;
            }
        }
        if (!frames.empty())
            emitted = true;
        return Verdict::pass();
    };

    for (size_t i = 0; i < c.ops.size(); ++i)
    {
        const EncOp& op = c.ops[i];
        switch (op.op)
        {
            case 0:
                if (emitted && dev == static_cast<uint16_t>(op.arg))
                    sameValueSet = true;
                dev = static_cast<uint16_t>(op.arg);
                enc.setDeviceId(dev);
                counter = 0;
                if (emitted)
                    changeAfterEmit = true;
                break;
            case 1:
                if (emitted && stream == static_cast<uint8_t>(op.arg))
                    sameValueSet = true;
                stream = static_cast<uint8_t>(op.arg);
                enc.setStreamId(stream);
                counter = 0;
                if (emitted)
                    changeAfterEmit = true;
                break;
            case 2:
                enc.restart();
                counter = 0;
                if (emitted)
                    changeAfterEmit = true;
                break;
            case 3:
            case 5:
            case 6:
            {
                auto batch = buildBatch(op.batch);
                if (batch.empty() && op.op == 5)
                    break;  // the single-packet overload has no empty form
                if (batch.empty() && emitted)
                    emptyBatchAfterFrames = true;
                std::vector<std::vector<uint8_t>> frames;
                lib::DataContext ctx{op.batch.minB, op.batch.maxB};
                if (op.op == 5)
                {
                    batch.resize(1);
                    frames = enc.encode(batch[0], ctx);
                }
                else if (op.op == 6)
                {
                    std::vector<std::shared_ptr<lib::Packet>> ptrs;
                    for (auto& p : batch)
                        ptrs.push_back(std::make_shared<lib::Packet>(p));
                    frames = enc.encode(ptrs.begin(), ptrs.end(), ctx);
                }
                else
                    frames = enc.encode(batch.begin(), batch.end(), ctx);
                if (changeAfterEmit)
                    encodeAfterChange = true;
                VF_TRY(checkFrames(frames, op.batch.version, batch, i));
                break;
            }
            case 4:
            {
                // many one-byte packets with max = 25: one frame each, makes the 16-bit wrap reachable
                PacketRecipe r;
                r.kind = rkGeneric;
                r.msgType = 1;
                r.ptype = 0x20;
                r.len = 1;
                std::vector<lib::Packet> batch(op.arg, buildPacket(r, 1));
                if (batch.empty())
                    break;
                auto frames = enc.encode(batch.begin(), batch.end(), lib::DataContext{0, 25});
                if (changeAfterEmit)
                    encodeAfterChange = true;
                VF_TRY(checkFrames(frames, 1, batch, i));
                break;
            }
        }
        VF_CHECK(enc.getSequenceCounter() == counter,
                 "after op " << i << " (kind " << int(op.op) << ") the encoder reports counter " << enc.getSequenceCounter() << ", last emitted frame had " << counter);
        VF_CHECK(enc.getDeviceId() == dev && enc.getStreamId() == stream, "after op " << i << " id getters disagree with the configuration");
    }
    if (sameValueSet)
        info.tag("id_set_to_the_value_already_configured_after_frames");
    if (wrapped)
        info.tag("counter_wrapped");
    if (emptyBatchAfterFrames)
        info.tag("empty_batch_after_frames_were_emitted");
    for (const auto& op : c.ops)
        if (op.op == 3 || op.op == 5 || op.op == 6)
            for (const auto& r : op.batch.packets)
            {
                if (r.kind == rkGeneric && r.msgType == 0)
                    info.tag("batch_with_packet_of_message_type_0");
                if (r.kind == rkGeneric && r.emptyPayload)
                    info.tag("batch_with_zero_length_payload_packet");
            }
    if (encodeAfterChange)
        info.tag("encode_after_id_change_or_restart");
    info.nontrivial = wrapped || encodeAfterChange;
    return Verdict::pass();
}

static rc::Gen<OpSeq> genCase(int tier)
{
    return rc::gen::exec([tier]() {
        OpSeq s;
        int n = *range<int>(1, tier ? 14 : 8);
        uint16_t curDev = 0;
        uint8_t curStream = 0;
        EncGenParams p;
        p.maxBatch = 5;
        p.frameBudget = 3000;
        p.beyond16Bit = true;
        p.allowErrorFlag = true;
        p.allowEmpty = true;  // an encode call with an empty batch emits nothing and must leave the counter where it is
        for (int i = 0; i < n; ++i)
        {
            EncOp op;
            op.op = *rc::gen::weightedElement<uint8_t>({{2, 0}, {2, 1}, {2, 2}, {6, 3}, {4, 4}, {1, 5}, {1, 6}});
            if (op.op == 0)
            {
                // a third of the id writes re-apply the value that is already configured (the counter must restart all the same)
                op.arg = *range<int>(0, 2) == 0 ? curDev : *anyInt<uint16_t>();
                curDev = static_cast<uint16_t>(op.arg);
            }
            else if (op.op == 1)
            {
                op.arg = *range<int>(0, 2) == 0 ? curStream : *anyInt<uint8_t>();
                curStream = static_cast<uint8_t>(op.arg);
            }
            else if (op.op == 4)
                op.arg = *rc::gen::weightedOneOf<uint32_t>({{1, range<uint32_t>(1, 50)}, {2, range<uint32_t>(20000, 33000)}, {1, range<uint32_t>(65000, 66000)}});
            else if (op.op >= 3)
            {
                op.batch = *genEncCase(p);
                // one batch in eight opens with (or holds) a packet of message type 0 - "undefined", what the decoder hands out for
                // payloads it rejected, and the encoder's own marker for "no message type yet"; its frames must announce type 0
                if (*range<int>(0, 7) == 0)
                {
                    PacketRecipe u;
                    u.kind = rkGeneric;
                    u.msgType = 0;
                    u.ptype = *rc::gen::element<uint8_t>(0x20, 0x01, 0xFF);  // not 0: a message with payload type byte 0 reads as padding, the frame walker of this check stops there
                    u.len = *range<uint32_t>(1, 40);
                    u.seed = *rc::gen::arbitrary<uint32_t>();
                    size_t at = *rc::gen::weightedOneOf<size_t>({{3, rc::gen::just<size_t>(0)}, {1, range<size_t>(0, op.batch.packets.size())}});
                    op.batch.packets.insert(op.batch.packets.begin() + static_cast<std::ptrdiff_t>(at), u);
                }
                // a third of the batches hold packets with a zero-length payload (e.g. a control message without data) at the
                // start, the end or between packets of another message type: they carry no message but may open a frame
                if (*range<int>(0, 2) == 0)
                {
                    int k = *range<int>(1, 2);
                    for (int j = 0; j < k; ++j)
                    {
                        PacketRecipe z;
                        z.kind = rkGeneric;
                        z.msgType = *rc::gen::element<uint8_t>(1, 2, 3, 0xFF);
                        z.ptype = *rc::gen::element<uint8_t>(0x01, 0x20, 0xFF);
                        z.len = 0;
                        z.emptyPayload = 1;
                        size_t at = *rc::gen::weightedOneOf<size_t>({{1, rc::gen::just<size_t>(0)}, {1, rc::gen::just(op.batch.packets.size())}, {1, range<size_t>(0, op.batch.packets.size())}});
                        op.batch.packets.insert(op.batch.packets.begin() + static_cast<std::ptrdiff_t>(at), z);
                    }
                }
            }
            s.ops.push_back(op);
        }
        return s;
    });
}

int main(int argc, char** argv)
{
    Property<OpSeq> prop;
    prop.id = "C09";
    prop.gen = genCase;
    prop.run = runCase;
    // coverage-guided mode: operation kinds 0..6, any ids, batches normalised like the generator's (empty batches, error-flagged packets,
    // zero-length payloads and message type 0 are all part of C09's domain), bounded bulk encodes
    prop.normalize = [](OpSeq& s) {
        if (s.ops.size() > 14)
            s.ops.resize(14);
        EncNormParams np;
        np.allowEmptyBatch = true;
        np.allowErrorFlag = true;
        np.allowEmptyPayload = true;
        np.allowMsgType0 = true;
        np.maxBatch = 8;
        np.frameBudget = 3000;
        uint32_t bulk = 0;
        for (auto& op : s.ops)
        {
            op.op = static_cast<uint8_t>(op.op % 7);
            if (op.op == 0)
                op.arg &= 0xFFFF;
            else if (op.op == 1)
                op.arg &= 0xFF;
            else if (op.op == 4)
            {
                op.arg = op.arg % 66001;
                if (bulk + op.arg > 70000)
                    op.arg = 1 + op.arg % 50;
                bulk += op.arg;
            }
            else
                op.arg = 0;
            if (op.op == 3 || op.op == 5 || op.op == 6)
            {
                normalizeEncCase(op.batch, np);
                op.batch.prior.clear();
                op.batch.dev = 0;
                op.batch.stream = 0;
            }
            else
                op.batch = EncCase{};
        }
    };
    return pbtMain(argc, argv, prop);
}
