// C19 - separate codec instances can be used concurrently: generated workloads, one per thread on own objects, compared
// with single-threaded digests; the TSan build of this driver turns any unsynchronised shared access into a failure.
#include <atomic>
#include <thread>

#include "../common/workloads.h"

using namespace vf;

struct Case
{
    std::vector<Workload> workloads;
    uint8_t repetitions{2};
    void io(Ar& a)
    {
        a.vec("workloads", workloads);
        a.num("repetitions", repetitions);
    }
};

static Verdict runCase(const Case& c, Info& info)
{
    const size_t n = c.workloads.size();
    std::vector<uint64_t> reference(n);
    for (size_t i = 0; i < n; ++i)
    {
        OutputSink out;
        runWorkload(c.workloads[i], out);
        reference[i] = out.digest;
    }
    const int reps = std::max<int>(1, c.repetitions);
    std::vector<std::vector<uint64_t>> got(n, std::vector<uint64_t>(static_cast<size_t>(reps), 0));
    std::atomic<size_t> arrived{0};
    std::atomic<bool> go{false};
    std::vector<std::thread> threads;
    for (size_t i = 0; i < n; ++i)
    {
        threads.emplace_back([&, i]() {
            arrived.fetch_add(1);
            while (!go.load(std::memory_order_acquire))
                std::this_thread::yield();
            for (int r = 0; r < reps; ++r)
            {
                OutputSink out;
                runWorkload(c.workloads[i], out);
                got[i][static_cast<size_t>(r)] = out.digest;
            }
        });
    }
    while (arrived.load() < n)
        std::this_thread::yield();
    go.store(true, std::memory_order_release);
    for (auto& t : threads)
        t.join();
    std::map<int, int> kinds;
    for (size_t i = 0; i < n; ++i)
    {
        ++kinds[c.workloads[i].kind];
        for (int r = 0; r < reps; ++r)
            VF_CHECK(got[i][static_cast<size_t>(r)] == reference[i], "workload " << i << " (kind " << int(c.workloads[i].kind) << ") run " << r << " in a thread gave digest "
                                                                                  << std::hex << got[i][static_cast<size_t>(r)] << ", alone " << reference[i]);
    }
    bool sameComponentTwice = false;
    static const char* names[] = {"encoder", "decoder", "tecmp_static_decoder", "status", "payload_builders", "codec_round_trip"};
    for (const auto& kv : kinds)
    {
        info.tag(std::string("workload_") + names[kv.first % 6]);
        if (kv.second >= 2)
            sameComponentTwice = true;
    }
    // encoder+codec and decoder+codec share components as well
    if ((kinds.count(0) && kinds.count(5)) || (kinds.count(1) && kinds.count(5)) || (kinds.count(1) && kinds.count(3)) || (kinds.count(2) && kinds.count(1)))
        sameComponentTwice = true;
    info.count("threads", n);
    info.nontrivial = n >= 2 && sameComponentTwice;
    return Verdict::pass();
}

static rc::Gen<Case> genCase(int tier)
{
    return rc::gen::exec([tier]() {
        Case c;
        int n = *range<int>(2, 8);
        for (int i = 0; i < n; ++i)
            c.workloads.push_back(*genWorkload(tier));
        // make sure the same component runs in at least two threads most of the time
        if (*range<int>(0, 3) != 0)
            c.workloads[1].kind = c.workloads[0].kind, c.workloads[1] = *rc::gen::suchThat(genWorkload(tier), [&](const Workload& w) { return w.kind == c.workloads[0].kind; });
        c.repetitions = *range<uint8_t>(1, 3);
        return c;
    });
}

int main(int argc, char** argv)
{
    Property<Case> prop;
    prop.id = "C19";
    prop.gen = genCase;
    prop.run = runCase;
    return pbtMain(argc, argv, prop);
}
