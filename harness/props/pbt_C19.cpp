// C19 - separate codec instances can be used concurrently: generated workloads, one per thread on own objects, compared
// with single-threaded digests; the TSan build of this driver turns any unsynchronised shared access into a failure.
#include <atomic>
#include <thread>

#include "../common/workloads.h"

using namespace vf;

struct Case
{
    std::vector<Workload> workloads;
    uint8_t repetitions{2};
    uint8_t fromPrototypes{0};  // 1: every workload copy-constructs its encoder / decoder / status tracker from objects with a history
                                // (built on the main thread before the threads start) instead of default-constructing them
    void io(Ar& a)
    {
        a.vec("workloads", workloads);
        a.num("repetitions", repetitions);
        a.optionalNum("fromPrototypes", fromPrototypes);
    }
};

static Verdict runCase(const Case& c, Info& info)
{
    const size_t n = c.workloads.size();
    std::unique_ptr<Prototypes> protoOwner;
    if (c.fromPrototypes)
    {
        protoOwner = std::make_unique<Prototypes>();
        Prototypes& p = *protoOwner;
        // status tracker that already knows the devices / interfaces the workloads are going to report on
        for (const auto& w : c.workloads)
            if (w.kind == 3)
            {
                size_t taken = 0;
                for (size_t i = 0; i < w.status.size() && taken < 6; ++i)
                    if (w.status[i].kind <= 1)
                    {
                        StatusOp first = w.status[i];
                        first.kind = 0;  // the device first, so that the interface is accepted
                        p.status.update(makeStatusUpdate(first, 5000 + i));
                        p.status.update(makeStatusUpdate(w.status[i], 6000 + i));
                        ++taken;
                    }
            }
        // encoder that has emitted frames, decoder that holds an unfinished message
        p.enc.setDeviceId(9);
        p.enc.setStreamId(9);
        PacketRecipe r;
        r.kind = rkCan;
        r.len = 8;
        lib::Packet pk = buildPacket(r, 1);
        p.enc.encode(pk, lib::DataContext{0, 1500});
        FrameRecipe f;
        f.dev = 1;
        f.stream = 0;
        MsgRecipe m;
        m.seg = 1;
        m.len = 20;
        f.msgs.push_back(m);
        Bytes fb = f.build();
        p.dec.decode(fb.data(), fb.size());
        info.tag("objects_copied_from_prototypes_with_a_history");
    }
    const Prototypes* proto = protoOwner.get();
    std::vector<uint64_t> reference(n);
    for (size_t i = 0; i < n; ++i)
    {
        OutputSink out;
        runWorkloadT<true>(c.workloads[i], out, proto);
        reference[i] = out.digest;
    }
    const int reps = std::max<int>(1, c.repetitions);
    std::vector<std::vector<uint64_t>> got(n, std::vector<uint64_t>(static_cast<size_t>(reps), 0));
    std::atomic<size_t> arrived{0};
    std::atomic<bool> go{false};
    std::vector<std::thread> threads;
    for (size_t i = 0; i < n; ++i)
    {
        threads.emplace_back([&, i]() {
            arrived.fetch_add(1);
            while (!go.load(std::memory_order_acquire))
                std::this_thread::yield();
            for (int r = 0; r < reps; ++r)
            {
                OutputSink out;
                runWorkloadT<true>(c.workloads[i], out, proto);
                got[i][static_cast<size_t>(r)] = out.digest;
            }
        });
    }
    while (arrived.load() < n)
        std::this_thread::yield();
    go.store(true, std::memory_order_release);
    for (auto& t : threads)
        t.join();
    std::map<int, int> kinds;
    for (size_t i = 0; i < n; ++i)
    {
        ++kinds[c.workloads[i].kind];
        for (int r = 0; r < reps; ++r)
            VF_CHECK(got[i][static_cast<size_t>(r)] == reference[i], "workload " << i << " (kind " << int(c.workloads[i].kind) << ") run " << r << " in a thread gave digest "
                                                                                  << std::hex << got[i][static_cast<size_t>(r)] << ", alone " << reference[i]);
    }
    bool sameComponentTwice = false;
    static const char* names[] = {"encoder", "decoder", "tecmp_static_decoder", "status", "payload_builders", "codec_round_trip"};
    for (const auto& kv : kinds)
    {
        info.tag(std::string("workload_") + names[kv.first % 6]);
        if (kv.second >= 2)
            sameComponentTwice = true;
    }
    // encoder+codec and decoder+codec share components as well
    if ((kinds.count(0) && kinds.count(5)) || (kinds.count(1) && kinds.count(5)) || (kinds.count(1) && kinds.count(3)) || (kinds.count(2) && kinds.count(1)))
        sameComponentTwice = true;
    info.count("threads", n);
    info.nontrivial = n >= 2 && sameComponentTwice;
    return Verdict::pass();
}

static rc::Gen<Case> genCase(int tier)
{
    return rc::gen::exec([tier]() {
        Case c;
        int n = *range<int>(2, 8);
        for (int i = 0; i < n; ++i)
            c.workloads.push_back(*genWorkload(tier));
        // make sure the same component runs in at least two threads most of the time
        if (*range<int>(0, 3) != 0)
            c.workloads[1].kind = c.workloads[0].kind, c.workloads[1] = *rc::gen::suchThat(genWorkload(tier), [&](const Workload& w) { return w.kind == c.workloads[0].kind; });
        c.repetitions = *range<uint8_t>(1, 3);
        c.fromPrototypes = *rc::gen::weightedElement<uint8_t>({{2, 0}, {1, 1}});
        return c;
    });
}

int main(int argc, char** argv)
{
    Property<Case> prop;
    prop.id = "C19";
    prop.gen = genCase;
    prop.run = runCase;
    return pbtMain(argc, argv, prop);
}
