// C11 - setting a field changes that field and nothing else (field-map model; exhaustive for fields <= 16 bits).
#include "../common/fields.h"

using namespace vf;

struct Op
{
    uint16_t field{0};
    uint64_t value{0};
    void io(Ar& a)
    {
        a.num("field", field);
        a.num("value", value);
    }
};
struct Case
{
    uint8_t cls{0};
    uint8_t bg{0};  // 0 zeros, 1 ones, 2 pseudo-random(seed)
    uint32_t seed{0};
    int32_t sweepField{-1};  // >= 0: write every in-range value of this field (<= 16 bits) onto the prior state
    std::vector<Op> ops;
    void io(Ar& a)
    {
        a.num("cls", cls);
        a.num("bg", bg);
        a.num("seed", seed);
        a.num("sweepField", sweepField);
        a.vec("ops", ops);
    }
};

static Bytes background(const Case& c, size_t n)
{
    Bytes b(n);
    for (size_t i = 0; i < n; ++i)
        b[i] = c.bg == 0 ? 0 : c.bg == 1 ? 0xFF : fillByte(c.seed, i);
    return b;
}

template <class Obj>
struct Model
{
    const DescT<Obj>& d;
    std::vector<uint64_t> cells;
    Bytes data;
    explicit Model(const DescT<Obj>& desc, const Obj& o)
        : d(desc)
        , cells(desc.cells.size(), 0)
    {
        for (const auto& f : d.fields)
            cells[static_cast<size_t>(f.cell)] |= (f.get(o) & f.mask()) << f.shift;
        data = d.data(o);
    }
    // raw bytes written at header offset `at`: every cell byte inside the run takes the new value (big-endian cells)
    void writeRaw(int at, const Bytes& bytes)
    {
        for (size_t ci = 0; ci < d.cells.size(); ++ci)
            for (int j = 0; j < d.cells[ci].width; ++j)
            {
                int pos = d.cells[ci].offset + j - at;
                if (pos < 0 || pos >= static_cast<int>(bytes.size()))
                    continue;
                int sh = 8 * (d.cells[ci].width - 1 - j);
                cells[ci] = (cells[ci] & ~(0xFFull << sh)) | (static_cast<uint64_t>(bytes[static_cast<size_t>(pos)]) << sh);
            }
    }
    void write(const FieldT<Obj>& f, uint64_t v)
    {
        uint64_t& c = cells[static_cast<size_t>(f.cell)];
        c = (c & ~(f.mask() << f.shift)) | ((v & f.mask()) << f.shift);
    }
    Verdict check(const Obj& o, const std::string& after) const
    {
        for (const auto& f : d.fields)
        {
            uint64_t expect = (cells[static_cast<size_t>(f.cell)] >> f.shift) & f.mask();
            uint64_t got = f.get(o);
            VF_CHECK(got == expect, d.name << ": after " << after << " getter " << f.name << " returns 0x" << std::hex << got << ", expected 0x" << expect);
        }
        VF_CHECK(d.data(o) == data, d.name << ": after " << after << " the data bytes / length changed");
        return Verdict::pass();
    }
};

template <class Obj>
static bool inRange(const FieldT<Obj>& f, uint64_t v)
{
    if (!f.allowed.empty())
        return std::find(f.allowed.begin(), f.allowed.end(), v) != f.allowed.end();
    return v <= f.mask();
}

template <class Obj>
static uint64_t normalizeValue(const FieldT<Obj>& f, uint64_t v)
{
    if (!f.allowed.empty())
        return f.allowed[v % f.allowed.size()];
    v &= f.mask();
    // float fields: keep the bit pattern a non-NaN (passing a signalling NaN by value may quieten it)
    if (f.bits == 32 && f.name.rfind("sample", 0) == 0 && ((v >> 23) & 0xFF) == 0xFF)
        v &= ~(1ull << 23);
    return v;
}

template <class Obj>
static Verdict runOn(const DescT<Obj>& d, const Case& c, Info& info)
{
    size_t imageSize = std::max<size_t>(d.headerSize, 24) + 6;
    Bytes priorImage = background(c, imageSize);
    // half of the prior images of classes with a data length field: the field agrees with the data area, as in a received
    // payload - every other field (flags, DLC, reserved bytes) stays arbitrary
    if (d.lengthCell >= 0 && ((c.seed >> 3) & 1) && imageSize >= d.headerSize)
        setCellBE(priorImage, d.cells[static_cast<size_t>(d.lengthCell)], imageSize - d.headerSize);
    Obj prior = d.fromImage(priorImage);
    // earlier in-range writes / the sequence under test
    Obj o = prior;
    Model<Obj> m(d, o);
    VF_TRY(m.check(o, "construction (model self-check)"));
    bool changedOnNonZero = false;
    uint64_t writes = 0;
    if (c.sweepField >= 0)
    {
        const auto& f = d.fields[static_cast<size_t>(c.sweepField) % d.fields.size()];
        if (!f.set || f.bits > 16)
            return Verdict::pass();
        std::vector<uint64_t> values = f.allowed;
        if (values.empty())
            for (uint64_t v = 0; v <= f.mask(); ++v)
                values.push_back(v);
        for (uint64_t v : values)
        {
            Obj x = o;
            Model<Obj> mx = m;
            f.set(x, v);
            mx.write(f, v);
            std::ostringstream what;
            what << "set " << f.name << " = 0x" << std::hex << v << " (background " << int(c.bg) << ")";
            VF_TRY(mx.check(x, what.str()));
            ++writes;
        }
        if (f.bits == 1)
        {
            // boolean flags: set and clear in both orders on the same object
            for (int order = 0; order < 2; ++order)
            {
                Obj x = o;
                Model<Obj> mx = m;
                for (int k = 0; k < 2; ++k)
                {
                    uint64_t v = static_cast<uint64_t>((order + k) % 2 == 0);
                    f.set(x, v);
                    mx.write(f, v);
                    VF_TRY(mx.check(x, std::string(v ? "setting " : "clearing ") + f.name));
                    ++writes;
                }
            }
        }
        changedOnNonZero = c.bg != 0;
        info.tag("exhaustive_field_sweep");
    }
    for (size_t i = 0; i < c.ops.size(); ++i)
    {
        if (c.ops[i].field >= 0x8000)
        {
            if (d.payloadSetter)
            {
                // Packet::setPayload: the payload field takes the new value, every header field keeps its own
                m.data = d.payloadSetter(o, c.ops[i].value);
                std::ostringstream what;
                what << "op " << i << ": setPayload(type 0x" << std::hex << ((m.data[0] << 8) | m.data[1]) << std::dec << ", " << m.data.size() - 2 << " bytes)";
                VF_TRY(m.check(o, what.str()));
                ++writes;
                changedOnNonZero = true;
                info.tag("packet_set_payload");
                continue;
            }
            if (d.varSetter)
            {
                // setData of the variable part: what was written reads back, every fixed header field keeps its value
                VF_TRY(d.varSetter(o, c.ops[i].value));
                m.data = d.data(o);
                VF_TRY(m.check(o, "op " + std::to_string(i) + ": setData of the variable part"));
                ++writes;
                changedOnNonZero = true;
                info.tag("variable_part_setter");
                continue;
            }
            if (d.dataSetter)
            {
                // setData: the data and the length fields take the new values (a quarter of them: exactly the size the object
                // already holds), every other field keeps its own
                const uint64_t v = c.ops[i].value;
                size_t n = ((v >> 32) % 4 == 0) ? std::min(m.data.size(), d.maxData) : static_cast<size_t>((v >> 40) % (d.maxData + 1));
                Bytes bytes = fillBytes(static_cast<uint32_t>(v), n);
                bool typeInvalidDuringWrite = false;
                if constexpr (std::is_base_of_v<lib::Payload, Obj>)
                {
                    // one data write in eight happens while the payload's own type field holds the "invalid" constant (a state the type
                    // setters reach); the type is restored afterwards - the data written must read back all the same
                    if ((v >> 48) % 8 == 0)
                    {
                        const auto savedType = o.getType();
                        o.setType(lib::PayloadType(lib::PayloadType::invalid));
                        d.dataSetter(o, bytes);
                        o.setType(savedType);
                        typeInvalidDuringWrite = true;
                        info.tag("data_setter_while_payload_type_is_invalid");
                    }
                }
                if (!typeInvalidDuringWrite)
                    d.dataSetter(o, bytes);
                m.data = bytes;
                for (const auto& e : d.dataEffects)
                {
                    uint64_t cv = 0;
                    const auto& cellDesc = d.cells[static_cast<size_t>(e.first)];
                    uint64_t cellMask = cellDesc.width >= 8 ? ~0ull : ((1ull << (8 * cellDesc.width)) - 1);
                    if (e.second(n, cv))
                        m.cells[static_cast<size_t>(e.first)] = cv & cellMask;
                    else
                    {
                        // no value prescribed for this length: take what the object reports
                        m.cells[static_cast<size_t>(e.first)] = 0;
                        for (const auto& f : d.fields)
                            if (f.cell == e.first)
                                m.cells[static_cast<size_t>(e.first)] |= (f.get(o) & f.mask()) << f.shift;
                    }
                }
                std::ostringstream what;
                what << "op " << i << ": setData of " << n << " bytes (the object held " << (n == m.data.size() ? "as many" : "another number") << ")";
                VF_TRY(m.check(o, what.str()));
                ++writes;
                changedOnNonZero = true;
                info.tag("data_setter");
                continue;
            }
            // group setter (raw run of header bytes); classes without one skip the op
            if (d.groups.empty())
                continue;
            const auto& g = d.groups[(c.ops[i].field - 0x8000u) % d.groups.size()];
            uint8_t n = g.takesLength ? static_cast<uint8_t>((c.ops[i].value >> 32) % static_cast<uint64_t>(g.maxLength + 1)) : static_cast<uint8_t>(g.maxLength);
            Bytes run = fillBytes(static_cast<uint32_t>(c.ops[i].value), n);
            Bytes runArg = run;
            runArg.resize(static_cast<size_t>(g.maxLength));  // the pointer always covers the fixed-size variant
            Bytes imgBefore = d.hasImage ? d.image(o) : Bytes();
            g.set(o, runArg.data(), n);
            m.writeRaw(g.offset, run);
            std::ostringstream what;
            what << "op " << i << ": " << g.name << " with " << int(n) << " bytes";
            VF_TRY(m.check(o, what.str()));
            if (d.hasImage)
            {
                Bytes imgAfter = d.image(o);
                VF_CHECK(imgAfter.size() == imgBefore.size(), d.name << ": after " << what.str() << " the header size changed");
                for (size_t k = 0; k < imgAfter.size(); ++k)
                {
                    bool inRun = static_cast<int>(k) >= g.offset && static_cast<int>(k) < g.offset + n;
                    VF_CHECK(imgAfter[k] == (inRun ? run[k - static_cast<size_t>(g.offset)] : imgBefore[k]),
                             d.name << ": after " << what.str() << " header byte " << k << " is wrong");
                }
            }
            ++writes;
            if (c.bg != 0)
                changedOnNonZero = true;
            info.tag("group_setter");
            continue;
        }
        const auto& f = d.fields[c.ops[i].field % d.fields.size()];
        if (!f.set)
            continue;
        uint64_t v = normalizeValue(f, c.ops[i].value);
        uint64_t before = (m.cells[static_cast<size_t>(f.cell)] >> f.shift) & f.mask();
        f.set(o, v);
        m.write(f, v);
        std::ostringstream what;
        what << "op " << i << ": set " << f.name << " = 0x" << std::hex << v;
        VF_TRY(m.check(o, what.str()));
        ++writes;
        if (before != v && c.bg != 0)
            changedOnNonZero = true;
    }
    info.tag("class_" + d.name);
    info.count("writes", writes);
    info.nontrivial = changedOnNonZero && writes > 0;
    return Verdict::pass();
}

static Verdict runCase(const Case& c, Info& info)
{
    return withClass(c.cls % kFieldClassCount, [&](auto desc) { return runOn(desc, c, info); });
}

static void enumerate(int, const std::function<bool(const Case&)>& emit)
{
    for (int cls = 0; cls < kFieldClassCount; ++cls)
    {
        size_t nFields = 0;
        withClass(cls, [&](auto desc) {
            nFields = desc.fields.size();
            return Verdict::pass();
        });
        size_t nGroups = 0;
        withClass(cls, [&](auto desc) {
            nGroups = desc.groups.size();
            return Verdict::pass();
        });
        size_t maxData = 0;
        withClass(cls, [&](auto desc) {
            maxData = desc.dataSetter ? desc.maxData : 0;
            return Verdict::pass();
        });
        if (maxData)
            for (uint64_t n = 0; n <= maxData; ++n)
                for (uint8_t bg = 0; bg < 3; ++bg)
                    for (uint64_t same = 0; same < 2; ++same)
                    {
                        Case c;
                        c.cls = static_cast<uint8_t>(cls);
                        c.bg = bg;
                        c.seed = static_cast<uint32_t>(cls * 100 + n);
                        Op op;
                        op.field = 0x8000;
                        op.value = (n << 40) | ((same ? 0ull : 1ull) << 32) | (n * 131 + 7);
                        c.ops.push_back(op);
                        // a second write of exactly the size just written (the object now holds n bytes)
                        if (same)
                            c.ops.push_back(op);
                        if (!emit(c))
                            return;
                    }
        bool hasPayloadSetter = false;
        withClass(cls, [&](auto desc) {
            hasPayloadSetter = static_cast<bool>(desc.payloadSetter);
            return Verdict::pass();
        });
        if (hasPayloadSetter)
            for (uint64_t t = 0; t < 12; ++t)
                for (uint64_t n : {0, 1, 8, 16, 17, 40, 79})
                    for (uint64_t ones = 0; ones < 2; ++ones)
                    {
                        Case c;
                        c.cls = static_cast<uint8_t>(cls);
                        c.bg = 2;
                        c.seed = static_cast<uint32_t>(t * 31 + n);
                        Op op;
                        op.field = 0x8000;
                        op.value = t | (ones << 7) | (n << 8) | ((t * 977 + n + 1) << 16);
                        c.ops.push_back(op);
                        if (!emit(c))
                            return;
                    }
        // group setters: every group x every length x backgrounds
        for (size_t g = 0; g < nGroups; ++g)
            for (uint64_t n = 0; n <= 12; ++n)
                for (uint8_t bg = 0; bg < 3; ++bg)
                {
                    Case c;
                    c.cls = static_cast<uint8_t>(cls);
                    c.bg = bg;
                    c.seed = static_cast<uint32_t>(cls * 100 + g);
                    Op op;
                    op.field = static_cast<uint16_t>(0x8000 + g);
                    op.value = (n << 32) | (n * 7 + 1);
                    c.ops.push_back(op);
                    if (!emit(c))
                        return;
                }
        for (size_t f = 0; f < nFields; ++f)
            for (uint8_t bg = 0; bg < 3; ++bg)
            {
                Case c;
                c.cls = static_cast<uint8_t>(cls);
                c.bg = bg;
                c.seed = static_cast<uint32_t>(cls * 100 + f);
                c.sweepField = static_cast<int32_t>(f);
                if (!emit(c))
                    return;
            }
    }
}

static rc::Gen<Case> genCase(int tier)
{
    return rc::gen::exec([tier]() {
        Case c;
        c.cls = *range<uint8_t>(0, kFieldClassCount - 1);
        c.bg = *rc::gen::weightedElement<uint8_t>({{1, 0}, {2, 1}, {5, 2}});
        c.seed = *rc::gen::arbitrary<uint32_t>();
        int n = *range<int>(1, tier ? 40 : 16);
        for (int i = 0; i < n; ++i)
        {
            Op op;
            op.field = *range<uint16_t>(0, 63);
            if (*range<int>(0, 5) == 0)
                op.field = static_cast<uint16_t>(0x8000 + op.field);  // group setter, for the classes that have one
            op.value = *rc::gen::weightedOneOf<uint64_t>(
                {{2, rc::gen::element<uint64_t>(0, 1, 0xFFFFFFFFFFFFFFFFull, 0xFFFFFFFFFFFFFFFEull, 0x5555555555555555ull, 0xAAAAAAAAAAAAAAAAull, 0x8000000000000000ull, 0x7FFFFFFFFFFFFFFFull)},
                 {1, rc::gen::map(range<int>(0, 63), [](int b) { return static_cast<uint64_t>(1ull << b); })},
                 {3, rc::gen::arbitrary<uint64_t>()}});
            c.ops.push_back(op);
        }
        return c;
    });
}

int main(int argc, char** argv)
{
    Property<Case> prop;
    prop.id = "C11";
    prop.gen = genCase;
    prop.run = runCase;
    prop.enumerate = enumerate;
    prop.enumerationIsExhaustive = true;
    prop.enumerationNote = "every setter of every class x every in-range value of fields <= 16 bits x backgrounds all-zero / all-ones / "
                           "pseudo-random; boolean flags set and cleared in both orders; group setters x every length";
    return pbtMain(argc, argv, prop);
}
