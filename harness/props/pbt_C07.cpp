// C07 - every encoded frame is well-formed and within the configured size bounds (independent frame walker).
#include "../common/gen_enc.h"

using namespace vf;

static Verdict runCase(const EncCase& c, Info& info)
{
    lib::Encoder enc;
    enc.setDeviceId(c.dev);
    enc.setStreamId(c.stream);
    std::vector<lib::Packet> batch = priorCallsThenBatch(enc, c);
    std::vector<Bytes> payloads;
    std::vector<size_t> lengths;
    for (const auto& p : batch)
    {
        Snap s = snap(p);
        payloads.push_back(s.payload);
        lengths.push_back(s.payload.size());
    }

    auto frames = encodeVia(enc, batch, lib::DataContext{c.minB, c.maxB}, c.overload);

    if (batch.empty())
    {
        VF_CHECK(frames.empty(), "empty batch produced " << frames.size() << " frames");
        info.tag("empty_batch");
        info.nontrivial = true;
        return Verdict::pass();
    }

    size_t pkt = 0, pos = 0;  // next expected payload byte
    bool anyPadded = false;
    for (size_t fi = 0; fi < frames.size(); ++fi)
    {
        const Bytes& f = frames[fi];
        VF_CHECK(f.size() >= c.minB, "frame " << fi << " has " << f.size() << " bytes < min " << c.minB);
        VF_CHECK(f.size() <= c.maxB, "frame " << fi << " has " << f.size() << " bytes > max " << c.maxB);
        VF_CHECK(f.size() >= wire::kCmpHeader, "frame " << fi << " shorter than a header");
        VF_CHECK(f[0] != 0, "frame " << fi << " has version 0");
        // tile the frame: messages as long as the next 16 bytes look like a message header (payload type != 0)
        size_t o = wire::kCmpHeader;
        size_t nMsg = 0;
        while (f.size() - o >= wire::kMsgHeader)
        {
            wire::MsgHdr h = wire::getMsgHdr(f.data() + o);
            if (h.payloadType == 0)
                break;  // padding starts here (zero bytes), verified below
            VF_CHECK(o + wire::kMsgHeader + h.length <= f.size(),
                     "frame " << fi << " message " << nMsg << " declares " << h.length << " bytes but only " << (f.size() - o - 16) << " remain");
            const uint8_t* chunk = f.data() + o + wire::kMsgHeader;
            // byte accounting
            VF_CHECK(pkt < payloads.size(), "frame " << fi << " carries a message beyond the last packet");
            const Bytes& src = payloads[pkt];
            uint8_t seg = h.seg();
            if (seg == wire::kSegNone || seg == wire::kSegFirst)
                VF_CHECK(pos == 0, "frame " << fi << ": message starts packet " << pkt << " although " << pos << " bytes of it were already sent");
            else
                VF_CHECK(pos > 0, "frame " << fi << ": continuation segment for packet " << pkt << " without a first segment");
            VF_CHECK(pos + h.length <= src.size(), "frame " << fi << ": packet " << pkt << " would receive more bytes than it has");
            VF_CHECK(memcmp(chunk, src.data() + pos, h.length) == 0,
                     "frame " << fi << " message " << nMsg << ": payload bytes are not bytes [" << pos << "," << pos + h.length << ") of packet " << pkt);
            pos += h.length;
            if (seg == wire::kSegNone || seg == wire::kSegLast)
            {
                VF_CHECK(pos == src.size(), "frame " << fi << ": packet " << pkt << " closed after " << pos << " of " << src.size() << " bytes");
                ++pkt;
                pos = 0;
            }
            else
                VF_CHECK(pos < src.size(), "frame " << fi << ": packet " << pkt << " complete but not closed by an unsegmented/last message");
            o += wire::kMsgHeader + h.length;
            ++nMsg;
        }
        VF_CHECK(nMsg >= 1, "frame " << fi << " (" << f.size() << " bytes) contains no complete message");
        for (size_t k = o; k < f.size(); ++k)
            VF_CHECK(f[k] == 0, "frame " << fi << " byte " << k << " after the last message is not zero");
        VF_CHECK(f.size() == std::max<size_t>(o, c.minB), "frame " << fi << " has " << f.size() << " bytes, messages end at " << o << ", min " << c.minB);
        if (f.size() > o)
            anyPadded = true;
    }
    VF_CHECK(pkt == payloads.size() && pos == 0, "only " << pkt << " of " << payloads.size() << " packets were emitted completely");

    EncClasses k = classify(c, lengths);
    if (!c.prior.empty())
        info.tag("encoder_had_earlier_calls");
    if (c.bulkFrames)
        info.tag("encoder_emitted_about_65536_frames_before");
    if (c.flagToggle & 0x33)
        info.tag("packet_objects_sent_before_with_single_flag_bits_inverted");
    {
        static const char* ov[] = {"overload_packet_iterators", "overload_shared_ptr_iterators", "overload_forward_list_iterators", "overload_single_packet"};
        info.tag(ov[(c.overload % 4 == 3 && c.packets.size() != 1) ? 0 : c.overload % 4]);
    }
    if (k.segmented)
        info.tag("segmented");
    if (k.aggregated)
        info.tag("aggregated");
    if (k.mixedTypes)
        info.tag("mixed_message_types");
    if (k.nearBoundary)
        info.tag("length_near_fit_boundary");
    if (anyPadded)
        info.tag("padded_to_min");
    for (const auto& r : c.packets)
        if (r.flags & 0x40)
        {
            info.tag("batch_with_error_in_payload_flagged_packet");
            break;
        }
    info.nontrivial = k.segmented || k.aggregated || k.mixedTypes || k.nearBoundary || anyPadded;
    info.count("packets", c.packets.size());
    info.count("frames", frames.size());
    return Verdict::pass();
}

int main(int argc, char** argv)
{
    Property<EncCase> prop;
    prop.id = "C07";
    prop.gen = [](int tier) {
        EncGenParams p;
        p.maxBatch = tier ? 40 : 12;
        p.allowEmpty = true;
        p.allowErrorFlag = true;
        return withPriorCalls(genEncCase(p), p);
    };
    prop.run = runCase;
    prop.normalize = [](EncCase& c) {
        EncNormParams np;
        np.allowEmptyBatch = true;
        np.allowErrorFlag = true;
        np.maxMaxB = 65535 + 24;  // C07's domain ends there
        normalizeEncCase(c, np);
    };
    return pbtMain(argc, argv, prop);
}
