// C15 - TECMP messages convert to equivalent ASAM CMP packets (independent TECMP parse: MUST / NONE / EITHER).
#include "../common/tecmp.h"

using namespace vf;

struct Case
{
    std::vector<TecmpRecipe> frames;  // decoded one after the other in the same process / thread (hidden conversion state would show)
    void io(Ar& a)
    {
        if (!a.writing && a.peekName() != "frames")
        {
            // older replay files hold a single frame
            frames.assign(1, TecmpRecipe{});
            frames[0].io(a);
            return;
        }
        a.vec("frames", frames);
    }
};

// `shared`: the one decoder object of the whole case (what a receiver has); every frame also goes through a decoder of its own
static Verdict runFrame(const TecmpRecipe& c, Info& info, lib::Decoder& shared)
{
    Bytes frame = c.build();
    TecmpExpectation x = tecmpReference(frame.data(), frame.size());

    // through the CMP decoder (first byte 0 routes to TECMP) and through the static TECMP decoder
    std::vector<std::shared_ptr<lib::Packet>> got;
    if (frame.size() >= 1 && frame[0] == 0)
    {
        lib::Decoder dec;
        got = decodeOwned(dec, frame);
        VF_CHECK(dec.verifPending().empty(), "a TECMP frame left pending reassembly state");
        // the decoder object that has seen all earlier frames of the case must give the same packets
        auto again = decodeOwned(shared, frame);
        VF_CHECK(again.size() == got.size(), "a decoder that decoded the earlier frames of the case returns " << again.size() << " packets, a fresh decoder " << got.size());
        for (size_t i = 0; i < got.size(); ++i)
            VF_CHECK(got[i] && again[i] && snap(*got[i]) == snap(*again[i]), "packet " << i << " differs between a fresh decoder and the decoder that saw the earlier frames");
    }
    std::vector<std::shared_ptr<lib::Packet>> direct;
    {
        uint8_t* heap = static_cast<uint8_t*>(malloc(frame.size() ? frame.size() : 1));
        if (!frame.empty())
            memcpy(heap, frame.data(), frame.size());
        direct = TECMP::Decoder::Decode(heap, frame.size());
        free(heap);
    }
    if (frame.size() >= 8 && frame[0] == 0)
    {
        VF_CHECK(got.size() == direct.size(), "Decoder::decode returned " << got.size() << " packets, TECMP::Decoder::Decode " << direct.size());
        for (size_t i = 0; i < got.size(); ++i)
            VF_CHECK(got[i] && direct[i] && snap(*got[i]) == snap(*direct[i]), "packet " << i << " differs between the two entry points");
    }
    const auto& out = direct;
    for (const auto& p : out)
        VF_CHECK(p != nullptr, "null packet");

    switch (x.what)
    {
        case TecmpExpect::none:
            VF_CHECK(out.empty(), "expected no packet (" << x.reason << ") but " << out.size() << " were returned");
            info.tag(std::string("none_") + x.reason);
            break;
        case TecmpExpect::either:
            info.tag(std::string("either_") + x.reason);
            break;
        case TecmpExpect::must:
            VF_CHECK(out.size() == x.packets.size(), "expected " << x.packets.size() << " packets, got " << out.size());
            for (size_t i = 0; i < out.size(); ++i)
                VF_TRY(compareTecmpPacket(*out[i], x.packets[i], i));
            if (!x.packets.empty())
            {
                static const char* kn[] = {"must_can", "must_lin", "must_cm_status", "must_bus_status"};
                info.tag(kn[x.packets[0].kind]);
            }
            else
                info.tag("must_bus_status_zero_entries");
            break;
    }
    bool mustNonTrivial = x.what == TecmpExpect::must && !x.packets.empty() &&
                          (x.packets[0].kind >= 2 || !x.packets[0].data.empty());
    bool noneNonTrivial = x.what == TecmpExpect::none && frame.size() > wire::kTecmpHeader &&
                          (x.reason == "unsupported data type" || x.reason == "unsupported message type" ||
                           x.reason.find("beyond the buffer") != std::string::npos || x.reason.find("shorter than") != std::string::npos);
    info.count("packets_compared", x.what == TecmpExpect::must ? x.packets.size() : 0);
    info.nontrivial = mustNonTrivial || noneNonTrivial;
    return Verdict::pass();
}

static Verdict runCase(const Case& c, Info& info)
{
    bool nontrivial = false, sameSerialOtherContent = false;
    std::map<uint32_t, uint32_t> serialSeeds;
    lib::Decoder shared;
    for (size_t i = 0; i < c.frames.size(); ++i)
    {
        Info one;
        Verdict v = runFrame(c.frames[i], one, shared);
        if (i > 0 && c.frames[i].device == c.frames[i - 1].device && c.frames[i].counter == c.frames[i - 1].counter)
            info.tag("frame_with_the_device_and_counter_of_the_frame_before");
        if (!v.ok)
            return Verdict::fail("frame " + std::to_string(i) + " of " + std::to_string(c.frames.size()) + ": " + v.why);
        for (const auto& t : one.tags)
            info.tag(t);
        for (const auto& kv : one.counters)
            info.count(kv.first, kv.second);
        nontrivial = nontrivial || one.nontrivial;
        const TecmpRecipe& r = c.frames[i];
        if ((r.kind == 2 || r.kind == 3) && r.useSerial)
        {
            auto it = serialSeeds.find(r.serial);
            if (it != serialSeeds.end() && it->second != r.seed)
                sameSerialOtherContent = true;
            serialSeeds[r.serial] = r.seed;
        }
    }
    if (c.frames.size() >= 2)
        info.tag("history_of_two_or_more_frames");
    if (sameSerialOtherContent)
        info.tag("status_with_a_serial_seen_before_but_other_content");
    info.nontrivial = nontrivial;
    return Verdict::pass();
}

static rc::Gen<TecmpRecipe> genFrame(int tier)
{
    return rc::gen::exec([tier]() {
        TecmpRecipe r;
        r.device = *anyInt<uint8_t>();
        r.counter = *anyInt<uint16_t>();
        r.version = *rc::gen::weightedOneOf<uint8_t>({{3, rc::gen::element<uint8_t>(2, 3)}, {1, anyInt<uint8_t>()}});
        r.deviceFlags = *anyInt<uint16_t>();
        r.interfaceId = *anyInt<uint32_t>();
        r.timestamp = *anyInt<uint64_t>();
        r.dataFlags = *anyInt<uint16_t>();
        r.reserved = *rc::gen::weightedOneOf<uint16_t>({{4, rc::gen::just<uint16_t>(0)}, {1, anyInt<uint16_t>()}});
        r.seed = *rc::gen::arbitrary<uint32_t>();
        int shape = *rc::gen::weightedElement<int>({{4, 0}, {3, 1}, {3, 2}, {3, 3}, {3, 4}, {3, 5}});
        switch (shape)
        {
            case 0:  // CAN / CAN-FD
            case 1:
            {
                r.msgType = wire::kTecmpMtData;
                r.dataType = shape == 0 ? wire::kTecmpDtCan : wire::kTecmpDtCanFd;
                r.kind = 0;
                r.arbId = *anyInt<uint32_t>() & 0x1FFFFFFFu;
                if (*range<int>(0, 1))
                    r.arbId |= 0x80000000u;
                size_t len = *rc::gen::weightedOneOf<size_t>({{4, range<size_t>(0, 8)}, {2, rc::gen::element<size_t>(12, 16, 20, 24, 32, 48, 64)}, {2, range<size_t>(0, 64)}});
                r.data = *bytesOfLen(len);
                int t = *range<int>(0, 3);
                if (t == 1)
                    r.trailer = *bytesOfLen(3);
                else if (t == 2)
                    r.trailer = *bytesOfLen(*range<size_t>(1, 2));
                else if (t == 3)
                    r.extra = *bytesOfLen(*range<size_t>(1, 8));
                break;
            }
            case 2:  // LIN
            {
                r.msgType = wire::kTecmpMtData;
                r.dataType = wire::kTecmpDtLin;
                r.kind = 1;
                r.pid = *anyInt<uint8_t>();
                size_t len = *rc::gen::weightedOneOf<size_t>({{5, range<size_t>(0, 8)}, {1, range<size_t>(0, 64)}});
                r.data = *bytesOfLen(len);
                if (*range<int>(0, 3))
                    r.trailer = *bytesOfLen(1);
                if (*range<int>(0, 4) == 0)
                    r.extra = *bytesOfLen(*range<size_t>(1, 8));
                break;
            }
            case 3:  // CM status
                r.msgType = wire::kTecmpMtCmStatus;
                r.dataType = 0;
                r.kind = 2;
                if (*range<int>(0, 4) == 0)
                    r.trailer = *bytesOfLen(*range<size_t>(1, 16));
                break;
            case 4:  // bus status
                r.msgType = wire::kTecmpMtBusStatus;
                r.dataType = 0;
                r.kind = 3;
                r.entries = *rc::gen::weightedOneOf<uint16_t>({{1, rc::gen::just<uint16_t>(0)}, {5, range<uint16_t>(1, 9)}, {2, range<uint16_t>(0, 40)}});
                // a third of them: one entry carries interface id 0 / three zero fields / all-ones fields
                if (r.entries && *range<int>(0, 2) == 0)
                    r.special = *range<uint8_t>(1, 6);
                if (*range<int>(0, 4) == 0)
                    r.trailer = *bytesOfLen(*range<size_t>(1, 11));  // trailing partial entry
                break;
            case 5:  // unsupported kinds / arbitrary types with a raw payload
            {
                r.kind = 4;
                r.msgType = *rc::gen::weightedOneOf<uint8_t>({{3, rc::gen::just(uint8_t(wire::kTecmpMtData))}, {2, rc::gen::element<uint8_t>(0, 4, 0x0A, 0xFF)}, {2, anyInt<uint8_t>()}});
                r.dataType = *rc::gen::weightedOneOf<uint16_t>(
                    {{3, rc::gen::element<uint16_t>(0x08, 0x10, 0x20, 0x80, 0xFF, 0xFF00, 0, 1, 5)}, {2, anyInt<uint16_t>()}, {1, rc::gen::element<uint16_t>(2, 3, 4)}});
                r.data = *bytesOfLen(*range<size_t>(1, 60));
                break;
            }
        }
        if ((r.kind == 2 || r.kind == 3) && *range<int>(0, 5) == 0)
            r.vendorLen = *rc::gen::weightedOneOf<int32_t>({{2, range<int32_t>(0, 40)}, {2, range<int32_t>(0xFFE0, 0xFFFF)}, {1, range<int32_t>(0, 0xFFFF)}});
        // inconsistent forms
        int inc = *rc::gen::weightedElement<int>({{6, 0}, {2, 1}, {2, 2}, {1, 3}, {1, 4}});
        if (inc == 1 && r.kind <= 1)
            r.declaredLen = *rc::gen::weightedOneOf<int32_t>({{2, rc::gen::just(static_cast<int32_t>(std::min<size_t>(255, r.data.size() + 1 + r.trailer.size() + r.extra.size())))},
                                                              {2, range<int32_t>(0, 255)},
                                                              {1, rc::gen::element<int32_t>(8, 9, 64, 200, 255)}});
        else if (inc == 2)
        {
            size_t full = r.build().size();
            // anywhere, inside the first bytes behind the TECMP header (where the payload's own header sits), or just before the end
            const int32_t fullI = static_cast<int32_t>(full);
            const int32_t hdr = static_cast<int32_t>(wire::kTecmpHeader);
            r.cutAt = *rc::gen::weightedOneOf<int32_t>({{2, range<int32_t>(0, fullI)},
                                                        {2, range<int32_t>(std::min(hdr, fullI), std::min(hdr + 40, fullI))},
                                                        {1, range<int32_t>(std::max(0, fullI - 4), fullI)}});
            // half of them with a declared payload length that matches the shortened buffer
            if (r.cutAt >= hdr && *range<int>(0, 1) == 0)
                r.payloadLength = r.cutAt - hdr;
        }
        else if (inc == 3)
            r.payloadLength = *rc::gen::weightedOneOf<int32_t>({{1, rc::gen::just<int32_t>(0)}, {1, range<int32_t>(0, 80)}, {1, rc::gen::element<int32_t>(0xFFFF, 0x8000, 1000)}});
        else if (inc == 4)
            r.byte0 = *rc::gen::element<uint8_t>(0, 0, 1);
        return r;
    });
}

static rc::Gen<Case> genCase(int tier)
{
    return rc::gen::exec([tier]() {
        Case c;
        int n = *rc::gen::weightedOneOf<int>({{3, rc::gen::just(1)}, {3, range<int>(2, 4)}, {1, range<int>(2, 8)}});
        std::vector<uint32_t> serials;
        for (int i = 0; i < n; ++i)
        {
            TecmpRecipe r = *genFrame(tier);
            if (r.kind == 2 || r.kind == 3)
            {
                // status frames: half of them re-use a serial number seen earlier in the case with other contents
                r.useSerial = 1;
                if (!serials.empty() && *range<int>(0, 1) == 0)
                    r.serial = serials[*range<size_t>(0, serials.size() - 1)];
                else
                    r.serial = *rc::gen::weightedOneOf<uint32_t>({{1, rc::gen::element<uint32_t>(0, 1, 0xFFFFFFFFu, 23140065u)}, {2, rc::gen::arbitrary<uint32_t>()}});
                serials.push_back(r.serial);
            }
            // a quarter of the later frames carry the device id and counter of the frame before them (a counter that stands still,
            // two modules with the same id): header fields are arbitrary, and no message may be lost because of the one before
            if (i > 0 && *range<int>(0, 3) == 0)
            {
                r.device = c.frames.back().device;
                r.counter = c.frames.back().counter;
            }
            c.frames.push_back(r);
        }
        return c;
    });
}

// deterministic sweep: every truncation offset and the boundary inner lengths of one frame per kind; all message types
static void enumerate(int tier, const std::function<bool(const Case&)>& emitCase)
{
    auto emit = [&](const TecmpRecipe& r) {
        Case c;
        c.frames.push_back(r);
        return emitCase(c);
    };
    std::vector<TecmpRecipe> bases;
    for (int shape = 0; shape < 5; ++shape)
    {
        TecmpRecipe r;
        r.device = 0x43;
        r.counter = 0x55c;
        r.interfaceId = 0x20 + static_cast<uint32_t>(shape);
        r.timestamp = 0x6114b53de0ull;
        r.seed = 77u + static_cast<uint32_t>(shape);
        switch (shape)
        {
            case 0:
                r.msgType = 3;
                r.dataType = 2;
                r.kind = 0;
                r.arbId = 0x7b;
                r.data = fillBytes(1, 8);
                r.trailer = fillBytes(2, 3);
                break;
            case 1:
                r.msgType = 3;
                r.dataType = 3;
                r.kind = 0;
                r.arbId = 0x9abcdef0;
                r.data = fillBytes(3, 16);
                break;
            case 2:
                r.msgType = 3;
                r.dataType = 4;
                r.kind = 1;
                r.pid = 0xAA;
                r.data = fillBytes(4, 5);
                r.trailer = {0x5c};
                break;
            case 3:
                r.msgType = 1;
                r.dataType = 0;
                r.kind = 2;
                break;
            case 4:
                r.msgType = 2;
                r.dataType = 0;
                r.kind = 3;
                r.entries = 3;
                break;
        }
        bases.push_back(r);
    }
    for (const auto& base : bases)
    {
        size_t full = base.build().size();
        for (size_t cut = 0; cut <= full; ++cut)
        {
            TecmpRecipe r = base;
            r.cutAt = static_cast<int32_t>(cut);
            if (!emit(r))
                return;
            // cut while the header still declares the original payload length, and with a consistent one
            if (cut >= wire::kTecmpHeader)
            {
                r.payloadLength = static_cast<int32_t>(cut - wire::kTecmpHeader);
                if (!emit(r))
                    return;
            }
        }
        if (base.kind <= 1)
            for (int len = 0; len <= 255; ++len)
            {
                TecmpRecipe r = base;
                r.declaredLen = len;
                if (!emit(r))
                    return;
            }
        for (int32_t pl : {0, 1, 4, 5, 11, 12, 13, 23, 24, 35, 36, 37, 47, 48, 0x7F, 0x80, 0xFF, 0x100, 0xFFFF})
        {
            TecmpRecipe r = base;
            r.payloadLength = pl;
            if (!emit(r))
                return;
        }
        // every message type, and a spread of data types, with this payload
        for (int mt = 0; mt < 256; ++mt)
        {
            TecmpRecipe r = base;
            r.msgType = static_cast<uint8_t>(mt);
            if (!emit(r))
                return;
        }
        int step = tier ? 1 : 251;
        for (int dt = 0; dt < 65536; dt += step)
        {
            TecmpRecipe r = base;
            r.dataType = static_cast<uint16_t>(dt);
            if (!emit(r))
                return;
        }
        for (uint16_t dt : {uint16_t(0), uint16_t(1), uint16_t(2), uint16_t(3), uint16_t(4), uint16_t(5), uint16_t(8), uint16_t(0x10), uint16_t(0x20), uint16_t(0x80), uint16_t(0xFF), uint16_t(0xFF00), uint16_t(0xFFFF)})
        {
            TecmpRecipe r = base;
            r.dataType = dt;
            if (!emit(r))
                return;
        }
    }
    // histories: status messages that repeat a serial number with other contents, interleaved with data messages
    for (uint32_t k = 0; k < 12; ++k)
    {
        Case c;
        for (uint32_t j = 0; j < 4; ++j)
        {
            TecmpRecipe r = bases[(j % 2) ? 3 : (k % 3 == 0 ? 4 : 3)];
            r.seed = 1000u + k * 10u + j;
            r.useSerial = 1;
            r.serial = (j == 2 && k % 2) ? 77u + k : 4242u;
            r.entries = static_cast<uint16_t>(1 + j);
            c.frames.push_back(r);
            if (j == 1)
                c.frames.push_back(bases[k % 3]);
        }
        if (!emitCase(c))
            return;
    }
    // bus status sizes around the 12-byte boundaries
    for (uint16_t n = 0; n <= 40; ++n)
        for (size_t trail = 0; trail < 12; trail += (n < 3 ? 1 : 5))
        {
            TecmpRecipe r = bases[4];
            r.entries = n;
            r.trailer = fillBytes(9, trail);
            if (!emit(r))
                return;
        }
}

int main(int argc, char** argv)
{
    Property<Case> prop;
    prop.id = "C15";
    prop.gen = genCase;
    prop.run = runCase;
    // coverage-guided mode: every field image of a TECMP recipe builds some byte string, and the reference parse judges byte strings
    // (MUST / NONE / EITHER), so only sizes are bounded
    prop.normalize = [](Case& c) {
        if (c.frames.empty())
            c.frames.push_back(TecmpRecipe{});
        if (c.frames.size() > 8)
            c.frames.resize(8);
        for (auto& r : c.frames)
        {
            r.kind = static_cast<uint8_t>(r.kind % 5);
            if (r.data.size() > 300)
                r.data.resize(300);
            if (r.trailer.size() > 64)
                r.trailer.resize(64);
            if (r.extra.size() > 64)
                r.extra.resize(64);
            if (r.entries > 60)
                r.entries = static_cast<uint16_t>(r.entries % 61);
            if (r.cutAt < -1)
                r.cutAt = -1;
            if (r.payloadLength < -1 || r.payloadLength > 65535)
                r.payloadLength = -1;
            if (r.declaredLen < -1 || r.declaredLen > 255)
                r.declaredLen = -1;
            if (r.vendorLen < -1 || r.vendorLen > 65535)
                r.vendorLen = -1;
            r.special = static_cast<uint8_t>(r.special % 7);
            r.useSerial = r.useSerial ? 1 : 0;
        }
    };
    prop.enumerate = enumerate;
    prop.enumerationIsExhaustive = true;
    prop.enumerationNote = "per supported kind one frame: every truncation offset (with the original and with a consistent payload length), every "
                           "inner length byte 0..255, boundary payload lengths, all 256 message types, data types (thorough: all 65536; quick: "
                           "every 251st + the defined ones); bus status with 0..40 entries and trailing partial entries";
    return pbtMain(argc, argv, prop);
}
