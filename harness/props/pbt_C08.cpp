// C08 - segmentation and aggregation follow the protocol rules (reference layout model).
#include "../common/gen_enc.h"

using namespace vf;

static Verdict runCase(const EncCase& c, Info& info)
{
    lib::Encoder enc;
    enc.setDeviceId(c.dev);
    enc.setStreamId(c.stream);
    std::vector<lib::Packet> batch = priorCallsThenBatch(enc, c);
    std::vector<model::LayoutPacket> lp;
    std::vector<size_t> lengths;
    for (size_t i = 0; i < batch.size(); ++i)
    {
        lengths.push_back(batch[i].getPayloadLength());
        lp.push_back({c.packets[i].messageType(), lengths.back()});
    }
    auto frames = encodeVia(enc, batch, lib::DataContext{c.minB, c.maxB}, c.overload);

    // parse: (frame message type, [(seg, len)]) for frames that hold at least one message
    std::vector<model::LayoutFrame> got;
    for (size_t fi = 0; fi < frames.size(); ++fi)
    {
        const Bytes& f = frames[fi];
        VF_CHECK(f.size() >= wire::kCmpHeader, "frame " << fi << " shorter than a header");
        model::LayoutFrame lf;
        lf.msgType = f[4];
        size_t o = wire::kCmpHeader;
        while (f.size() - o >= wire::kMsgHeader)
        {
            wire::MsgHdr h = wire::getMsgHdr(f.data() + o);
            if (h.payloadType == 0 || o + wire::kMsgHeader + h.length > f.size())
                break;
            lf.messages.push_back({0, h.seg(), 0, h.length});
            o += wire::kMsgHeader + h.length;
        }
        if (!lf.messages.empty())
            got.push_back(lf);  // message-less frames are C07's concern
    }

    auto exp = model::referenceLayout(lp, c.maxB);
    // frames that hold no message are not compared (see above); zero-length-payload packets can leave such frames behind
    exp.erase(std::remove_if(exp.begin(), exp.end(), [](const model::LayoutFrame& f) { return f.messages.empty(); }), exp.end());
    auto describe = [](const std::vector<model::LayoutFrame>& fs) {
        std::ostringstream os;
        for (const auto& f : fs)
        {
            os << "[t" << int(f.msgType) << ":";
            for (const auto& m : f.messages)
                os << " " << (m.seg == 0 ? "U" : m.seg == 1 ? "F" : m.seg == 2 ? "I" : "L") << m.length;
            os << "]";
        }
        return os.str();
    };
    bool same = got.size() == exp.size();
    for (size_t i = 0; same && i < got.size(); ++i)
    {
        same = got[i].msgType == exp[i].msgType && got[i].messages.size() == exp[i].messages.size();
        for (size_t k = 0; same && k < got[i].messages.size(); ++k)
            same = got[i].messages[k].seg == exp[i].messages[k].seg && got[i].messages[k].length == exp[i].messages[k].length;
    }
    if (!same)
    {
        std::string g = describe(got), e = describe(exp);
        if (g.size() > 1500)
            g = g.substr(0, 1500) + "...";
        if (e.size() > 1500)
            e = e.substr(0, 1500) + "...";
        VF_CHECK(same, "layout differs from the protocol rules (max=" << c.maxB << "): got " << g << " expected " << e);
    }

    EncClasses k = classify(c, lengths);
    bool afterLast = false;
    for (size_t i = 1; i < lp.size(); ++i)
        if (16 + lp[i - 1].length > c.maxB - 8)
            afterLast = true;
    if (!c.prior.empty())
        info.tag("encoder_had_earlier_calls");
    if (c.bulkFrames)
        info.tag("encoder_emitted_about_65536_frames_before");
    if (c.flagToggle & 0x33)
        info.tag("packet_objects_sent_before_with_single_flag_bits_inverted");
    {
        static const char* ov[] = {"overload_packet_iterators", "overload_shared_ptr_iterators", "overload_forward_list_iterators", "overload_single_packet"};
        info.tag(ov[(c.overload % 4 == 3 && c.packets.size() != 1) ? 0 : c.overload % 4]);
    }
    for (const auto& r : c.packets)
        if (r.emptyPayload)
        {
            info.tag("batch_with_zero_length_payload_packet");
            break;
        }
    if (k.segmented)
        info.tag("segmented");
    if (k.aggregated)
        info.tag("aggregated");
    if (k.mixedTypes)
        info.tag("mixed_message_types");
    if (k.nearBoundary)
        info.tag("length_near_fit_boundary");
    if (afterLast)
        info.tag("packet_after_last_segment");
    // also: length within +-2 of what is left in the current frame
    {
        long cap = static_cast<long>(c.maxB) - 8, left = 0;
        bool first = true, seg = false;
        uint8_t mt = 0;
        for (const auto& p : lp)
        {
            long need = 16 + static_cast<long>(p.length);
            if (!first && !seg && mt == p.msgType && std::labs(left - need) <= 2)
                info.tag("length_near_rest_of_frame");
            if (need > cap)
            {
                seg = true;
                left = 0;
            }
            else if (first || seg || mt != p.msgType || left < need)
            {
                left = cap - need;
                seg = false;
            }
            else
                left -= need;
            mt = p.msgType;
            first = false;
        }
    }
    info.nontrivial = k.nearBoundary || k.mixedTypes || afterLast || info.tags.count("length_near_rest_of_frame");
    return Verdict::pass();
}

int main(int argc, char** argv)
{
    Property<EncCase> prop;
    prop.id = "C08";
    prop.gen = [](int tier) {
        EncGenParams p;
        p.maxBatch = tier ? 40 : 12;
        p.beyond16Bit = true;
        p.boundaryWeight = 10;
        p.allowErrorFlag = true;
        // the C07 domain has payload lengths 1..65535; one case in six goes beyond it with packets whose payload is empty: they
        // put no message on the wire, and the rules for the packets around them (frame of their own message type, batch order,
        // appending only to a frame of the same type) must hold all the same
        return rc::gen::exec([p]() {
            EncCase c = *withPriorCalls(genEncCase(p), p);
            if (*range<int>(0, 5) == 0)
            {
                int k = *range<int>(1, 3);
                for (int j = 0; j < k; ++j)
                {
                    PacketRecipe z;
                    z.kind = rkGeneric;
                    z.msgType = *rc::gen::element<uint8_t>(1, 2, 3, 0xFF);
                    z.ptype = *rc::gen::element<uint8_t>(0x01, 0x20, 0xFF);
                    z.len = 0;
                    z.emptyPayload = 1;
                    size_t at = *rc::gen::weightedOneOf<size_t>({{1, rc::gen::just<size_t>(0)}, {1, rc::gen::just(c.packets.size())}, {2, range<size_t>(0, c.packets.size())}});
                    c.packets.insert(c.packets.begin() + static_cast<std::ptrdiff_t>(at), z);
                }
                if (c.overload % 4 == 3)
                    c.overload = 0;
            }
            return c;
        });
    };
    prop.run = runCase;
    prop.normalize = [](EncCase& c) {
        EncNormParams np;
        np.allowErrorFlag = true;
        np.allowEmptyPayload = true;
        normalizeEncCase(c, np);
    };
    return pbtMain(argc, argv, prop);
}
