// C10 - encoder output does not depend on earlier encode calls (metamorphic: history vs fresh encoder).
#include "../common/gen_enc.h"

using namespace vf;

struct HistCase
{
    uint16_t dev{0};
    uint8_t stream{0};
    std::vector<EncCase> history;
    EncCase last;
    uint8_t reuseObjects{0};  // 1: every call encodes from the same Packet objects, refilled in place before each call (a sender that
                              // keeps its packet objects): what an encoder remembers about "the packet at this address" must not matter
    uint32_t bulkFrames{0};  // > 0: the history starts with one call of that many one-byte packets at max = 25 (one frame each), which
                             // brings the 16-bit sequence counter - the one state that legitimately survives - next to its wrap
    uint8_t idMode{0};  // 4: ids configured once for the whole history, changed (both setters) only right before the call under test; 5: restart()
                        // right before the call under test.  0: the ids are configured once, before the history.  1..3: "arbitrary configurations" - every history call ran
                        // under its own ids (1: device and stream id, 2: only the stream id, 3: only the device id differ), set through the
                        // setters before that call; before the call under test the ids are set to dev / stream
    void io(Ar& a)
    {
        a.num("dev", dev);
        a.num("stream", stream);
        a.vec("history", history);
        last.io(a);
        a.optionalNum("bulkFrames", bulkFrames);
        a.optionalNum("reuseObjects", reuseObjects);
        a.optionalNum("idMode", idMode);
        a.optionalNum("repeatLast", repeatLast);
    }
    uint16_t repeatLast{0};  // the last history call is made 1 + repeatLast times (long-lived encoders: whatever counts calls - generations,
                             // epochs, statistics - in a narrow type comes round after 2^7 / 2^8 of them)
};

static Verdict runCase(const HistCase& c, Info& info)
{
    lib::Encoder a, b;
    a.setDeviceId(c.dev);
    a.setStreamId(c.stream);
    b.setDeviceId(c.dev);
    b.setStreamId(c.stream);
    if (c.bulkFrames)
    {
        PacketRecipe r;
        r.kind = rkGeneric;
        r.msgType = 1;
        r.ptype = 0x20;
        r.len = 1;
        std::vector<lib::Packet> bulk(c.bulkFrames, buildPacket(r, 1));
        a.encode(bulk.begin(), bulk.end(), lib::DataContext{0, 25});
        info.tag("history_brings_counter_next_to_wrap");
    }
    // object pool for reuseObjects: storage reserved once, so the packets of every call sit at the same addresses
    std::vector<lib::Packet> pool;
    size_t poolCap = c.last.packets.size();
    for (const auto& h : c.history)
        poolCap = std::max(poolCap, h.packets.size());
    pool.reserve(poolCap + 1);
    auto fromPool = [&](const EncCase& e) -> std::vector<lib::Packet>& {
        pool.resize(e.packets.size());
        for (size_t i = 0; i < e.packets.size(); ++i)
            fillPacket(pool[i], e.packets[i], e.version);
        return pool;
    };
    for (const auto& h : c.history)
    {
        if (c.idMode >= 1 && c.idMode <= 3)
        {
            if (c.idMode != 2)
                a.setDeviceId(h.dev);
            if (c.idMode != 3)
                a.setStreamId(h.stream);
        }
        else if (c.idMode == 4 && &h == &c.history.front())
        {
            a.setDeviceId(static_cast<uint16_t>(c.dev + 1));
            a.setStreamId(static_cast<uint8_t>(c.stream + 1));
        }
        auto owned = c.reuseObjects ? std::vector<lib::Packet>() : buildBatch(h);
        std::vector<lib::Packet>& batch = c.reuseObjects ? fromPool(h) : owned;
        if (h.abortAfter >= 0)
        {
            if (encodeAborted(a, batch, lib::DataContext{h.minB, h.maxB}, h.abortAfter))
                info.tag("history_contains_call_ended_by_exception");
        }
        else
            encodeVia(a, batch, lib::DataContext{h.minB, h.maxB}, h.overload);
        if (c.repeatLast && &h == &c.history.back())
        {
            for (uint16_t k = 0; k < c.repeatLast; ++k)
                encodeVia(a, batch, lib::DataContext{h.minB, h.maxB}, h.overload);
            info.tag("history_call_repeated_about_2^7_or_2^8_times");
        }
    }
    if (c.idMode == 5 && !c.history.empty())
    {
        a.restart();
        info.tag("restart_right_before_the_call_under_test");
    }
    else if (c.idMode && !c.history.empty())
    {
        // only the setters whose value differs are called (a setter restarts the counter; calling both would hide what one alone leaves behind)
        if (c.idMode != 2 && a.getDeviceId() != c.dev)
            a.setDeviceId(c.dev);
        if (c.idMode != 3 && a.getStreamId() != c.stream)
            a.setStreamId(c.stream);
        info.tag(c.idMode == 4 ? "ids_changed_only_right_before_the_call_under_test" : "history_calls_ran_under_other_ids");
    }
    auto ownedLast = c.reuseObjects ? std::vector<lib::Packet>() : buildBatch(c.last);
    std::vector<lib::Packet>& batch = c.reuseObjects ? fromPool(c.last) : ownedLast;
    if (c.reuseObjects)
        info.tag("packet_objects_reused_across_calls");
    std::vector<std::vector<uint8_t>> fa;
    try
    {
        fa = encodeVia(a, batch, lib::DataContext{c.last.minB, c.last.maxB}, c.last.overload);
    }
    catch (const std::exception& e)
    {
        return Verdict::fail(std::string("the encoder with history threw '") + e.what() + "' for a batch that a fresh encoder encodes");
    }
    auto fb = encodeVia(b, batch, lib::DataContext{c.last.minB, c.last.maxB}, c.last.overload);
    VF_CHECK(fa.size() == fb.size(), "encoder with history produced " << fa.size() << " frames, fresh encoder " << fb.size());
    bool haveDelta = false;
    uint16_t delta = 0;
    for (size_t i = 0; i < fa.size(); ++i)
    {
        VF_CHECK(fa[i].size() == fb[i].size(), "frame " << i << " has " << fa[i].size() << " bytes with history, " << fb[i].size() << " fresh");
        VF_CHECK(fa[i].size() >= 8, "frame " << i << " shorter than a header");
        for (size_t k = 0; k < fa[i].size(); ++k)
            if (k != 6 && k != 7)
                VF_CHECK(fa[i][k] == fb[i][k], "frame " << i << " byte " << k << " differs: " << int(fa[i][k]) << " with history, " << int(fb[i][k]) << " fresh");
        uint16_t d = static_cast<uint16_t>(wire::get16(fa[i].data() + 6) - wire::get16(fb[i].data() + 6));
        if (!haveDelta)
        {
            delta = d;
            haveDelta = true;
        }
        VF_CHECK(d == delta, "frame " << i << " sequence counter offset " << d << " differs from the first frame's " << delta);
    }
    std::vector<size_t> lengths;
    for (auto& p : batch)
        lengths.push_back(p.getPayloadLength());
    EncClasses k = classify(c.last, lengths);
    bool sameType = !c.history.empty() && !c.history.back().packets.empty() && !c.last.packets.empty() &&
                    c.history.back().packets.back().messageType() == c.last.packets.front().messageType();
    if (!c.history.empty())
        info.tag("non_empty_history");
    if (k.segmented)
        info.tag("final_batch_segmented");
    if (k.mixedTypes)
        info.tag("final_batch_mixed_types");
    if (sameType)
        info.tag("history_ends_with_same_message_type");
    for (const auto& r : c.last.packets)
        if (r.kind == rkGeneric && r.msgType == 0)
            info.tag("final_batch_has_packet_of_undefined_message_type");
    for (const auto& h : c.history)
        if (h.packets.empty())
            info.tag("history_contains_empty_batch");
    for (const auto& r : c.last.packets)
        if (r.emptyPayload)
        {
            info.tag("final_batch_has_packet_with_zero_length_payload");
            break;
        }
    info.nontrivial = (!c.history.empty() || c.bulkFrames) && (k.segmented || k.mixedTypes);
    return Verdict::pass();
}

static rc::Gen<HistCase> genCase(int tier)
{
    return rc::gen::exec([tier]() {
        HistCase c;
        c.dev = *anyInt<uint16_t>();
        c.stream = *anyInt<uint8_t>();
        EncGenParams p;
        p.maxBatch = tier ? 10 : 6;
        p.frameBudget = 5000;
        p.allowEmpty = true;
        p.allowErrorFlag = true;
        p.beyond16Bit = true;
        int n = *range<int>(0, tier ? 6 : 4);
        for (int i = 0; i < n; ++i)
        {
            c.history.push_back(*genEncCase(p));
            c.history.back().overload = *range<uint8_t>(0, 3);
            // one in six history calls ends with an exception thrown by the caller's iterator part-way through the batch
            if (!c.history.back().packets.empty() && *range<int>(0, 5) == 0)
                c.history.back().abortAfter = *range<int32_t>(0, static_cast<int32_t>(c.history.back().packets.size()) - 1);
        }
        c.reuseObjects = *range<uint8_t>(0, 1);
        // one case in twelve: the counter stands a few frames before 65535 / 65536 (or a multiple) when the final batch starts
        if (*range<int>(0, 11) == 0)
        {
            c.bulkFrames = *rc::gen::weightedOneOf<uint32_t>({{4, range<uint32_t>(65515, 65536)}, {1, range<uint32_t>(131050, 131072)}});
            c.history.resize(std::min<size_t>(c.history.size(), 1));
        }
        p.allowEmpty = false;
        p.boundaryWeight = 8;
        c.last = *genEncCase(p);
        c.last.overload = *range<uint8_t>(0, 3);
        // bias: continue with the message type / kind the history ended with
        if (!c.history.empty() && !c.history.back().packets.empty() && *range<int>(0, 1) == 0)
        {
            const PacketRecipe& prev = c.history.back().packets.back();
            c.last.packets.front().kind = prev.kind;
            c.last.packets.front().msgType = prev.msgType;
            c.last.packets.front().ptype = prev.ptype;
            c.last.packets.front().len = std::min(c.last.packets.front().len, PacketRecipe::maxLen(prev.kind));
            if (prev.kind == rkGeneric && c.last.packets.front().len == 0)
                c.last.packets.front().len = 1;
        }
        // one case in twelve: [A, B x about 128 or 256, final batch that starts like A but under another frame size]
        if (c.history.size() >= 2 && !c.bulkFrames && *range<int>(0, 11) == 0)
        {
            c.history.resize(2);
            c.history[1].abortAfter = -1;
            if (c.history[1].packets.size() > 3)
                c.history[1].packets.resize(3);
            c.repeatLast = static_cast<uint16_t>(*rc::gen::weightedOneOf<int>({{3, range<int>(125, 129)}, {2, range<int>(253, 257)}, {1, range<int>(1, 124)}}));
            if (!c.history[0].packets.empty())
            {
                const PacketRecipe& first = c.history[0].packets.front();
                c.last.packets.front().kind = first.kind;
                c.last.packets.front().msgType = first.msgType;
                c.last.packets.front().ptype = first.ptype;
                c.last.packets.front().len = std::min(c.last.packets.front().len, PacketRecipe::maxLen(first.kind));
                if (first.kind == rkGeneric && c.last.packets.front().len == 0)
                    c.last.packets.front().len = 1;
                c.last.version = c.history[0].version;
            }
        }
        // a quarter of the cases: the history calls ran under other device / stream ids; half of those continue with the frame size and
        // version of the last history call (whatever an encoder keeps per configuration must follow the ids too)
        if (!c.history.empty() && *range<int>(0, 3) == 0)
        {
            c.idMode = *range<uint8_t>(1, 5);
            size_t totalBytes = 0;
            for (const auto& r : c.last.packets)
                totalBytes += payloadLengthOf(r);
            const uint32_t hMax = c.history.back().maxB;
            if (*range<int>(0, 1) == 0 && totalBytes / (hMax - 24) <= 20000)  // bounded work: the final batch stays below ~20000 frames
            {
                c.last.version = c.history.back().version;
                c.last.maxB = hMax;
                c.last.minB = std::min(c.history.back().minB, c.last.maxB);
            }
        }
        // packets with a payload object of zero bytes (they put no message on the wire but may open a frame) in the history
        // and in the final batch
        auto addEmpty = [](EncCase& e) {
            PacketRecipe z;
            z.kind = rkGeneric;
            z.msgType = *rc::gen::element<uint8_t>(1, 2, 3, 0xFF);
            z.ptype = *rc::gen::element<uint8_t>(0x01, 0x20, 0xFF);
            z.len = 0;
            z.emptyPayload = 1;
            size_t at = *rc::gen::weightedOneOf<size_t>({{1, rc::gen::just<size_t>(0)}, {1, rc::gen::just(e.packets.size())}, {1, range<size_t>(0, e.packets.size())}});
            e.packets.insert(e.packets.begin() + static_cast<std::ptrdiff_t>(at), z);
        };
        for (auto& h : c.history)
            if (*range<int>(0, 5) == 0)
                addEmpty(h);
        if (*range<int>(0, 5) == 0)
            addEmpty(c.last);
        // rare class: a packet whose payload type carries message type 0 ("undefined", what the decoder hands out for
        // payloads it could not type) - the encoder's own sentinel value for "no message type yet"
        if (*range<int>(0, 7) == 0)
        {
            PacketRecipe& r = c.last.packets[*range<size_t>(0, c.last.packets.size() - 1) * (*range<int>(0, 1))];
            r.kind = rkGeneric;
            r.msgType = 0;
            r.ptype = *rc::gen::element<uint8_t>(0x20, 0x01, 0x00);
            r.len = std::max<uint32_t>(1, std::min<uint32_t>(r.len, 65535));
        }
        return c;
    });
}

int main(int argc, char** argv)
{
    Property<HistCase> prop;
    prop.id = "C10";
    prop.gen = genCase;
    prop.run = runCase;
    // coverage-guided mode: histories of up to 6 calls normalised like the generator's, a non-empty final batch, bounded bulk prefix
    prop.normalize = [](HistCase& c) {
        EncNormParams np;
        np.allowEmptyBatch = true;
        np.allowErrorFlag = true;
        np.allowEmptyPayload = true;
        np.allowMsgType0 = true;
        np.maxBatch = 8;
        np.frameBudget = 4000;
        if (c.history.size() > 6)
            c.history.resize(6);
        if (c.bulkFrames > 131072)
            c.bulkFrames = 65500 + c.bulkFrames % 65573;
        if (c.bulkFrames && c.history.size() > 1)
            c.history.resize(1);
        for (auto& h : c.history)
        {
            normalizeEncCase(h, np);
            h.prior.clear();
            if (h.packets.empty())
                h.abortAfter = -1;
        }
        np.allowEmptyBatch = false;
        normalizeEncCase(c.last, np);
        c.last.prior.clear();
        c.last.abortAfter = -1;
        c.reuseObjects = c.reuseObjects ? 1 : 0;
        c.idMode = static_cast<uint8_t>(c.idMode % 6);
        if (c.repeatLast > 300)
            c.repeatLast = static_cast<uint16_t>(c.repeatLast % 301);
        if (c.history.empty())
            c.repeatLast = 0;
    };
    return pbtMain(argc, argv, prop);
}
