// C03 - payloads accepted by validation expose only in-bounds data.
#include "../common/tecmp.h"
#include "../common/views.h"

using namespace vf;

struct Case
{
    uint8_t cls{0};
    uint8_t path{0};       // 0 class validator + constructor, 1 message buffer -> Packet constructor, 2 frame -> Decoder,
                           // 3 the payload travels as a TECMP message: Decoder::decode converts it, the returned packets are swept,
                           // 4 the payload travels in two segments and is reassembled by the Decoder
    uint8_t bg{0};         // background 0 zeros, 1 ones, 2 pseudo-random(seed), 3 pseudo-random without any zero byte
    uint8_t normalize{1};  // clear the header bits that make the class's validator reject outright (error flags, status > 2, ...)
    uint32_t seed{0};
    uint32_t size{0};
    std::vector<int32_t> vals;  // inner length field values in wire order, -1 = keep background
    // message-level fields for path 1 / 2
    int32_t declaredDelta{0};  // declared message payload length = size + delta (clamped to 0..65535)
    uint8_t msgFlags{0};
    uint8_t extra{0};  // bytes after the message in the buffer
    void io(Ar& a)
    {
        a.num("cls", cls);
        a.num("path", path);
        a.num("bg", bg);
        a.num("normalize", normalize);
        a.num("seed", seed);
        a.num("size", size);
        a.numvec("vals", vals);
        a.num("declaredDelta", declaredDelta);
        a.num("msgFlags", msgFlags);
        a.num("extra", extra);
    }
};

static Bytes buildPayloadBytes(const Case& c)
{
    Bytes b(c.size);
    for (size_t i = 0; i < b.size(); ++i)
        b[i] = c.bg == 0 ? 0 : c.bg == 1 ? 0xFF : c.bg == 3 ? (fillByte(c.seed, i) ? fillByte(c.seed, i) : uint8_t(0xA5)) : fillByte(c.seed, i);
    auto put = [&](size_t off, size_t width, uint32_t v) {
        if (off + width > b.size())
            return false;
        if (width == 1)
            b[off] = static_cast<uint8_t>(v);
        else
            wire::set16(b.data() + off, static_cast<uint16_t>(v));
        return true;
    };
    auto val = [&](size_t k) -> int32_t { return k < c.vals.size() ? c.vals[k] : -1; };
    if (c.normalize)
    {
        switch (c.cls)
        {
            case pcCan:
            case pcCanFd:
                if (b.size() >= 2)
                    wire::set16(b.data(), static_cast<uint16_t>(wire::get16(b.data()) & ~wire::kCanErrorFlags));
                put(12, 2, 0);
                break;
            case pcEthernet:
                if (b.size() >= 2)
                    wire::set16(b.data(), static_cast<uint16_t>(wire::get16(b.data()) & ~0x003B));
                break;
            case pcAnalog:
                if (b.size() >= 2)
                    b[1] = static_cast<uint8_t>(b[1] & ~0x02);
                break;
            case pcIf:
                if (b.size() > 29)
                    b[29] = static_cast<uint8_t>(b[29] % 3);
                break;
            default:
                break;
        }
    }
    switch (c.cls)
    {
        case pcCan:
        case pcCanFd:
            if (val(0) >= 0)
                put(15, 1, static_cast<uint32_t>(val(0)));
            break;
        case pcLin:
            if (val(0) >= 0)
                put(7, 1, static_cast<uint32_t>(val(0)));
            break;
        case pcEthernet:
            if (val(0) >= 0)
                put(4, 2, static_cast<uint32_t>(val(0)));
            break;
        case pcCm:
        {
            size_t o = wire::kCmStatusHeader;
            for (size_t k = 0; k < 5; ++k)
            {
                if (o + 2 > b.size())
                    break;
                if (val(k) >= 0)
                    put(o, 2, static_cast<uint32_t>(val(k)));
                o += 2 + wire::get16(b.data() + o);
            }
            break;
        }
        case pcIf:
        {
            size_t o = wire::kIfStatusHeader;
            if (o + 2 <= b.size())
            {
                if (val(0) >= 0)
                    put(o, 2, static_cast<uint32_t>(val(0)));
                size_t n = wire::get16(b.data() + o);
                o += 2 + n + (n % 2);
                if (o + 2 <= b.size() && val(1) >= 0)
                    put(o, 2, static_cast<uint32_t>(val(1)));
            }
            break;
        }
        default:
            break;
    }
    return b;
}

static bool innerLengthPositive(const Case& c, const Bytes& b)
{
    switch (c.cls)
    {
        case pcCan:
        case pcCanFd:
            return b.size() >= 16 && b[15] > 0;
        case pcLin:
            return b.size() >= 8 && b[7] > 0;
        case pcEthernet:
            return b.size() >= 6 && wire::get16(b.data() + 4) > 0;
        case pcAnalog:
            return b.size() > 16;
        case pcCm:
        {
            wire::CmVar v;
            if (!wire::walkCm(b.data(), b.size(), v))
                return b.size() >= 28 && wire::get16(b.data() + 26) > 0;
            for (size_t l : v.len)
                if (l)
                    return true;
            return false;
        }
        case pcIf:
        {
            wire::IfVar v;
            if (!wire::walkIf(b.data(), b.size(), v))
                return b.size() >= 38 && wire::get16(b.data() + 36) > 0;
            return v.idsLen || v.vendorLen;
        }
    }
    return false;
}

// Builds T from an exactly-sized heap block (freed before the accessors run) in static storage; when a sibling buffer is given, an object
// built from it lives in that storage first, is swept and destroyed.
template <class T>
static Verdict buildInSameStorageAndSweep(uint8_t cls, const Bytes* sibling, uint8_t* heap, size_t n, ViewStats& vs)
{
    alignas(T) static unsigned char slot[sizeof(T)];
    if (sibling)
    {
        uint8_t* sh = static_cast<uint8_t*>(malloc(sibling->size() ? sibling->size() : 1));
        if (!sibling->empty())
            memcpy(sh, sibling->data(), sibling->size());
        T* a = new (slot) T(sh, sibling->size());
        free(sh);
        ViewStats ignored;
        Verdict va = sweepAccessors(cls, *a, ignored);
        a->~T();
        if (!va.ok)
        {
            free(heap);
            return Verdict::fail("sibling buffer (inner lengths rotated): " + va.why);
        }
    }
    T* p = new (slot) T(heap, n);
    free(heap);
    Verdict v = sweepAccessors(cls, *p, vs);
    p->~T();
    return v;
}

static Verdict runCase(const Case& c, Info& info)
{
    if (c.path == 3)
    {
        // TECMP path: packets built by the converter are "accepted" payloads too - their views must stay inside their bytes
        TecmpRecipe r;
        r.device = static_cast<uint8_t>(c.seed);
        r.interfaceId = c.seed * 7u;
        r.timestamp = c.seed * 0x10001ull;
        r.seed = c.seed;
        Bytes bg(std::min<uint32_t>(c.size, 300));
        for (size_t i = 0; i < bg.size(); ++i)
            bg[i] = c.bg == 0 ? 0 : c.bg == 1 ? 0xFF : c.bg == 3 ? (fillByte(c.seed, i) ? fillByte(c.seed, i) : uint8_t(0xA5)) : fillByte(c.seed, i);
        int32_t declared = c.vals.empty() || c.vals[0] < 0 ? -1 : (c.vals[0] & 0xFF);
        switch (c.cls)
        {
            case pcLin:
                r.msgType = wire::kTecmpMtData, r.dataType = wire::kTecmpDtLin, r.kind = 1, r.pid = static_cast<uint8_t>(c.seed >> 8);
                r.data = bg, r.declaredLen = declared, r.trailer = Bytes(c.extra % 2, 0x5C);
                break;
            case pcCm:
                r.msgType = wire::kTecmpMtCmStatus, r.dataType = 0, r.kind = 2, r.trailer = Bytes(c.extra % 5, 0x11);
                break;
            case pcIf:
                r.msgType = wire::kTecmpMtBusStatus, r.dataType = 0, r.kind = 3, r.entries = static_cast<uint16_t>(c.size % 24);
                break;
            default:
                r.msgType = wire::kTecmpMtData, r.dataType = (c.cls == pcCan ? 2 : 3), r.kind = 0;
                r.arbId = (c.seed * 2654435761u) & (c.normalize ? 0x9FFFFFFFu : 0xFFFFFFFFu);
                r.data = bg, r.declaredLen = declared, r.trailer = Bytes(c.extra % 4, 0x77);
                break;
        }
        Bytes frame = r.build();
        lib::Decoder dec;
        auto got = decodeOwned(dec, frame);
        ViewStats tvs;
        bool any = false;
        for (const auto& p : got)
        {
            VF_CHECK(p != nullptr, "null packet");
            bool typed = false;
            VF_TRY(sweepPacket(*p, tvs, &typed));
            any = any || typed;
        }
        info.tag("path_tecmp_conversion");
        info.tag(any ? "accepted" : "rejected");
        info.count("views_checked", tvs.views);
        info.count("non_empty_views", tvs.nonEmptyViews);
        info.nontrivial = any && tvs.nonEmptyViews > 0;
        return Verdict::pass();
    }

    Bytes payload = buildPayloadBytes(c);
    ViewStats vs;
    bool accepted = false;
    info.tag(std::string("class_") + className(c.cls));
    if (c.path == 0)
    {
        // exactly-sized heap block: ASan red zones catch a read one byte past the buffer
        uint8_t* heap = static_cast<uint8_t*>(malloc(payload.size() ? payload.size() : 1));
        if (!payload.empty())
            memcpy(heap, payload.data(), payload.size());
        accepted = classValidates(c.cls, heap, payload.size());
        Verdict v = Verdict::pass();
        if (accepted)
        {
            // a sibling buffer of the same size with the inner length values rotated / halved: if the validator accepts it too, an
            // object built from it occupies the same storage first and is read, then the object under test is built in its place
            // (a receive loop re-using one object; whatever a class remembers per object address must not outlive the object)
            Case sib = c;
            if (sib.vals.size() >= 2)
                std::rotate(sib.vals.begin(), sib.vals.begin() + 1, sib.vals.end());
            else if (sib.vals.size() == 1 && sib.vals[0] > 0)
                sib.vals[0] /= 2;
            Bytes sibling = buildPayloadBytes(sib);
            bool useSibling = sibling != payload && classValidates(c.cls, sibling.data(), sibling.size());
            if (useSibling)
                info.tag("object_built_in_storage_that_held_another_accepted_payload");
            switch (c.cls)
            {
                case pcCan:
                    v = buildInSameStorageAndSweep<lib::CanPayload>(c.cls, useSibling ? &sibling : nullptr, heap, payload.size(), vs);
                    break;
                case pcCanFd:
                    v = buildInSameStorageAndSweep<lib::CanFdPayload>(c.cls, useSibling ? &sibling : nullptr, heap, payload.size(), vs);
                    break;
                case pcLin:
                    v = buildInSameStorageAndSweep<lib::LinPayload>(c.cls, useSibling ? &sibling : nullptr, heap, payload.size(), vs);
                    break;
                case pcEthernet:
                    v = buildInSameStorageAndSweep<lib::EthernetPayload>(c.cls, useSibling ? &sibling : nullptr, heap, payload.size(), vs);
                    break;
                case pcAnalog:
                    v = buildInSameStorageAndSweep<lib::AnalogPayload>(c.cls, useSibling ? &sibling : nullptr, heap, payload.size(), vs);
                    break;
                case pcCm:
                    v = buildInSameStorageAndSweep<lib::CaptureModulePayload>(c.cls, useSibling ? &sibling : nullptr, heap, payload.size(), vs);
                    break;
                case pcIf:
                    v = buildInSameStorageAndSweep<lib::InterfacePayload>(c.cls, useSibling ? &sibling : nullptr, heap, payload.size(), vs);
                    break;
            }
            heap = nullptr;
        }
        if (heap)
            free(heap);
        VF_TRY(v);
        info.tag("path_class_validator");
    }
    else
    {
        // message buffer: header + payload (+ extra bytes)
        long declared = static_cast<long>(payload.size()) + c.declaredDelta;
        declared = std::max<long>(0, std::min<long>(65535, declared));
        wire::MsgHdr mh;
        mh.timestamp = c.seed;
        mh.idWord = c.seed * 3u;
        mh.flags = static_cast<uint8_t>(c.msgFlags & ~wire::kFlagSegMask);
        mh.payloadType = classPayloadType(c.cls);
        mh.length = static_cast<uint16_t>(declared);
        Bytes msg = wire::buildMessage(mh, payload);
        msg.insert(msg.end(), c.extra, 0);
        if (c.path == 1)
        {
            uint8_t* heap = static_cast<uint8_t*>(malloc(msg.size()));
            memcpy(heap, msg.data(), msg.size());
            bool ok = lib::Packet::isValidPacket(heap, msg.size());
            if (ok)
            {
                lib::Packet p(static_cast<lib::CmpHeader::MessageType>(classMsgType(c.cls)), heap, msg.size());
                free(heap);
                heap = nullptr;
                VF_CHECK(p.verifHasPayload(), "packet built from an accepted message buffer has no payload");
                bool typed = false;
                VF_TRY(sweepPacket(p, vs, &typed));
                accepted = typed;
                info.tag("message_buffer_accepted");
            }
            if (heap)
                free(heap);
            info.tag("path_packet_constructor");
        }
        else if (c.path == 4)
        {
            // the payload travels in two segments (cut at a position derived from the seed): what the decoder reassembles and
            // hands out as a valid typed packet must pass the same accessor sweep
            size_t cut = payload.empty() ? 0 : mix(c.seed, 91) % (payload.size() + 1);
            lib::Decoder dec;
            std::vector<std::shared_ptr<lib::Packet>> got;
            for (int part = 0; part < 2; ++part)
            {
                Bytes chunk(payload.begin() + static_cast<long>(part == 0 ? 0 : cut), payload.begin() + static_cast<long>(part == 0 ? cut : payload.size()));
                wire::MsgHdr sh = mh;
                sh.flags = static_cast<uint8_t>((mh.flags & ~wire::kFlagSegMask) | ((part == 0 ? wire::kSegFirst : wire::kSegLast) << 2));
                sh.length = static_cast<uint16_t>(chunk.size());
                Bytes frame;
                wire::CmpHdr h{1, 0, 7, classMsgType(c.cls), 3, static_cast<uint16_t>(65535 + part)};
                wire::putCmpHdr(frame, h);
                wire::putBytes(frame, wire::buildMessage(sh, chunk));
                auto out = decodeOwned(dec, frame);
                got.insert(got.end(), out.begin(), out.end());
            }
            for (const auto& p : got)
            {
                VF_CHECK(p != nullptr, "null packet");
                bool typed = false;
                VF_TRY(sweepPacket(*p, vs, &typed));
                accepted = accepted || typed;
            }
            info.tag("path_decoder_reassembled");
        }
        else
        {
            Bytes frame;
            wire::CmpHdr h{1, 0, 7, classMsgType(c.cls), 3, 1};
            wire::putCmpHdr(frame, h);
            wire::putBytes(frame, msg);
            lib::Decoder dec;
            auto got = decodeOwned(dec, frame);
            for (const auto& p : got)
            {
                VF_CHECK(p != nullptr, "null packet");
                bool typed = false;
                VF_TRY(sweepPacket(*p, vs, &typed));
                accepted = accepted || typed;
            }
            info.tag("path_decoder");
        }
    }
    if (accepted)
        info.tag("accepted");
    else
        info.tag("rejected");
    info.count("views_checked", vs.views);
    info.count("non_empty_views", vs.nonEmptyViews);
    // non-trivial: accepted by the validator with an inner length > 0 or a size within 8 of the header
    size_t hs = classHeader(c.cls);
    info.nontrivial = accepted && (innerLengthPositive(c, payload) || (payload.size() >= hs && payload.size() <= hs + 8));
    return Verdict::pass();
}

static std::vector<int32_t> lengthValues(size_t size)
{
    std::vector<int32_t> v;
    for (size_t k = 0; k <= size + 2; ++k)
        v.push_back(static_cast<int32_t>(k));
    for (int32_t x : {0x7F, 0x80, 0xFF, 0x100, 0x7FFF, 0x8000, 0xFFDC, 0xFFE6, 0xFFF0, 0xFFF8, 0xFFF9, 0xFFFA, 0xFFFB, 0xFFFC, 0xFFFD, 0xFFFE, 0xFFFF})
        v.push_back(x);
    return v;
}

static void enumerate(int tier, const std::function<bool(const Case&)>& emit)
{
    for (uint8_t cls = 0; cls < pcCount; ++cls)
    {
        size_t hs = classHeader(cls);
        std::vector<size_t> sizes;
        for (size_t s = 0; s <= hs + 8; ++s)
            sizes.push_back(s);
        for (size_t s : {hs + 16, hs + 64, hs + 255, hs + 256})
            sizes.push_back(s);
        if (tier)
            for (size_t s = hs + 9; s <= hs + 40; ++s)
                sizes.push_back(s);
        for (size_t size : sizes)
            for (uint8_t bg = 0; bg < 3; ++bg)
                for (uint8_t path : {uint8_t(0), uint8_t(1), uint8_t(2), uint8_t(4)})
                {
                    Case base;
                    base.cls = cls;
                    base.path = path;
                    base.bg = bg;
                    base.seed = static_cast<uint32_t>(size * 131 + cls);
                    base.size = static_cast<uint32_t>(size);
                    if (cls == pcAnalog)
                    {
                        for (uint8_t norm = 0; norm < 2; ++norm)
                        {
                            Case c = base;
                            c.normalize = norm;
                            if (!emit(c))
                                return;
                        }
                        continue;
                    }
                    if (cls == pcCm)
                    {
                        // five length prefixes over {0,1,2, fits exactly, fits + 1, 0xFFFF}
                        if (path != 0 && bg != 0)
                            continue;  // keep the product small: packet / decoder paths use the zero background only
                        if (size < hs + 2)
                        {
                            if (!emit(base))
                                return;
                            continue;
                        }
                        size_t rest = size - hs;
                        const std::vector<int32_t> choices = {0, 1, 2, -2, -3, 0xFFFF};
                        // near the header all five prefixes are swept, further away the first two (the others fit exactly)
                        int swept = size <= hs + 12 ? 5 : 2;
                        size_t total = 1;
                        for (int k = 0; k < swept; ++k)
                            total *= choices.size();
                        for (size_t combo = 0; combo < total; ++combo)
                        {
                            Case c = base;
                            size_t used = 0, x = combo;
                            for (int k = 0; k < 5; ++k)
                            {
                                int32_t ch = -2;
                                if (k < swept)
                                {
                                    ch = choices[x % choices.size()];
                                    x /= choices.size();
                                }
                                long following = 2L * (4 - k);
                                long fit = static_cast<long>(rest) - static_cast<long>(used) - 2 - following;
                                if (k < 4)
                                    fit = std::min<long>(fit, 3);  // leave room so that later prefixes matter
                                int32_t v = ch == -2 ? static_cast<int32_t>(std::max<long>(0, fit))
                                                     : ch == -3 ? static_cast<int32_t>(std::max<long>(0, static_cast<long>(rest) - static_cast<long>(used) - 2 - following + 1)) : ch;
                                c.vals.push_back(v);
                                used += 2 + static_cast<size_t>(v);
                            }
                            if (!emit(c))
                                return;
                        }
                        continue;
                    }
                    if (cls == pcIf)
                    {
                        size_t rest = size > hs ? size - hs : 0;
                        std::vector<int32_t> first = lengthValues(rest);
                        for (int32_t a : first)
                        {
                            long after = static_cast<long>(rest) - 2 - a - (a % 2) - 2;
                            std::vector<int32_t> second = {0, 1, 2, 0xFF, 0xFFFF, -1};
                            if (after >= 0)
                            {
                                second.push_back(static_cast<int32_t>(after));
                                second.push_back(static_cast<int32_t>(after + 1));
                                if (after > 0)
                                    second.push_back(static_cast<int32_t>(after - 1));
                            }
                            for (int32_t b2 : second)
                            {
                                Case c = base;
                                c.vals = {a, b2};
                                if (!emit(c))
                                    return;
                            }
                        }
                        continue;
                    }
                    // CAN, CAN-FD, LIN, Ethernet: one inner length field
                    size_t rest = size > hs ? size - hs : 0;
                    for (int32_t v : lengthValues(rest))
                    {
                        if ((cls == pcCan || cls == pcCanFd || cls == pcLin) && v > 255)
                            continue;
                        Case c = base;
                        c.vals = {v};
                        if (!emit(c))
                            return;
                    }
                }
    }
    // TECMP path: CAN / CAN-FD / LIN data of every length 0..255 (consistent length byte, and one less / more), with and
    // without trailer bytes; status messages
    for (uint8_t cls : {uint8_t(pcCan), uint8_t(pcCanFd), uint8_t(pcLin)})
        for (uint32_t n = 0; n <= 255; ++n)
            for (int32_t d : {0, -1, 1})
                for (uint8_t extra : {uint8_t(0), uint8_t(1), uint8_t(3)})
                {
                    Case c;
                    c.cls = cls;
                    c.path = 3;
                    c.bg = 2;
                    c.normalize = 1;
                    c.seed = n * 3 + cls;
                    c.size = n;
                    c.extra = extra;
                    if (d != 0)
                        c.vals = {static_cast<int32_t>((static_cast<int32_t>(n) + d) & 0xFF)};
                    if (!emit(c))
                        return;
                }
    for (uint8_t cls : {uint8_t(pcCm), uint8_t(pcIf)})
        for (uint32_t n = 0; n < 24; ++n)
        {
            Case c;
            c.cls = cls;
            c.path = 3;
            c.seed = n + 1;
            c.size = n;
            c.extra = static_cast<uint8_t>(n % 5);
            if (!emit(c))
                return;
        }
    // capture-module payloads without a single zero byte behind string k (content-dependent reads: an accessor that scans for a
    // terminator must stop at the field's end): strings before k short, string k unterminated, every later prefix >= 0x0101
    for (int k = 0; k < 4; ++k)
        for (int32_t lk : {1, 2, 5})
            for (int32_t big : {0x0101, 0x0102, 0x01FF})
                for (uint8_t path = 0; path < 3; ++path)
                {
                    Case c;
                    c.cls = pcCm;
                    c.path = path;
                    c.bg = 3;
                    c.seed = static_cast<uint32_t>(k * 17 + lk + big);
                    size_t total = classHeader(pcCm);
                    for (int j = 0; j < 5; ++j)
                    {
                        int32_t v = j < k ? 2 : j == k ? lk : big;
                        c.vals.push_back(v);
                        total += 2 + static_cast<size_t>(v);
                    }
                    c.size = static_cast<uint32_t>(total);
                    if (!emit(c))
                        return;
                }
    // message-level validity: declared length vs buffer, error flag, header cut at every offset
    for (int32_t delta : {-3, -1, 0, 1, 2, 300})
        for (uint8_t flags : {uint8_t(0), uint8_t(0x40), uint8_t(0x33)})
            for (uint8_t extra : {uint8_t(0), uint8_t(1), uint8_t(17)})
                for (uint8_t cls = 0; cls < pcCount; ++cls)
                    for (uint32_t size : {0u, 1u, static_cast<uint32_t>(classHeader(cls)), static_cast<uint32_t>(classHeader(cls) + 5)})
                    {
                        Case c;
                        c.cls = cls;
                        c.path = 1;
                        c.bg = 0;
                        c.size = size;
                        c.declaredDelta = delta;
                        c.msgFlags = flags;
                        c.extra = extra;
                        if (!emit(c))
                            return;
                    }
}

static rc::Gen<Case> genCase(int tier)
{
    return rc::gen::exec([tier]() {
        Case c;
        c.cls = *range<uint8_t>(0, pcCount - 1);
        c.path = *rc::gen::weightedElement<uint8_t>({{3, 0}, {1, 1}, {2, 2}, {1, 3}, {2, 4}});
        c.bg = *rc::gen::weightedElement<uint8_t>({{1, 0}, {1, 1}, {4, 2}, {2, 3}});
        c.normalize = *rc::gen::weightedElement<uint8_t>({{5, 1}, {1, 0}});
        c.seed = *rc::gen::arbitrary<uint32_t>();
        size_t hs = classHeader(c.cls);
        c.size = *rc::gen::weightedOneOf<uint32_t>({{4, range<uint32_t>(0, static_cast<uint32_t>(hs + 12))},
                                                    {4, range<uint32_t>(static_cast<uint32_t>(hs), static_cast<uint32_t>(hs + 300))},
                                                    {1, range<uint32_t>(0, tier ? 65535 : 5000)}});
        size_t rest = c.size > hs ? c.size - hs : 0;
        int nVals = c.cls == pcCm ? 5 : c.cls == pcIf ? 2 : 1;
        size_t used = 0;
        for (int k = 0; k < nVals; ++k)
        {
            long left = static_cast<long>(rest) - static_cast<long>(used) - 2;
            int32_t v = *rc::gen::weightedOneOf<int32_t>(
                {{1, rc::gen::just<int32_t>(-1)},
                 {3, range<int32_t>(0, 8)},
                 {4, range<int32_t>(0, static_cast<int32_t>(std::max<long>(0, std::min<long>(left, 65535))))},
                 {2, rc::gen::map(range<int32_t>(-2, 2), [left](int32_t d) { return static_cast<int32_t>(std::max<long>(0, std::min<long>(65535, left + d))); })},
                 {1, rc::gen::element<int32_t>(0x7F, 0x80, 0xFF, 0xFFFF, 0xFFFE)},
                 {1, range<int32_t>(0xFFC0, 0xFFFF)}});
            c.vals.push_back(v);
            if (v > 0)
                used += static_cast<size_t>(v) + 2;
            else
                used += 2;
        }
        // capture-module payloads whose tail holds no zero byte at all: later prefixes 0x0101.. (both bytes non-zero), exact size
        if (c.cls == pcCm && *range<int>(0, 3) == 0)
        {
            c.bg = 3;
            c.vals.clear();
            int k = *range<int>(0, 3);
            size_t total = hs;
            for (int j = 0; j < 5; ++j)
            {
                int32_t v = j < k ? *range<int32_t>(0, 6) : j == k ? *range<int32_t>(1, 40)
                                                                  : *rc::gen::map(range<int32_t>(0, 0x2FE), [](int32_t x) { return 0x0101 + x + ((0x0101 + x) % 256 == 0 ? 1 : 0); });
                c.vals.push_back(v);
                total += 2 + static_cast<size_t>(v);
            }
            c.size = static_cast<uint32_t>(total + *rc::gen::weightedElement<size_t>({{4, 0}, {1, 1}, {1, 7}}));
        }
        c.declaredDelta = *rc::gen::weightedElement<int32_t>({{8, 0}, {1, -1}, {1, 1}, {1, -8}, {1, 300}});
        c.msgFlags = *rc::gen::weightedElement<uint8_t>({{6, 0}, {1, 0x40}, {2, 0x33}});
        c.extra = *rc::gen::weightedElement<uint8_t>({{4, 0}, {1, 1}, {1, 15}, {1, 16}, {1, 40}});
        return c;
    });
}

int main(int argc, char** argv)
{
    Property<Case> prop;
    prop.id = "C03";
    prop.gen = genCase;
    prop.run = runCase;
    prop.enumerate = enumerate;
    prop.enumerationIsExhaustive = true;
    prop.enumerationNote = "per typed class: every size 0..header+8 (thorough ..header+40) and header+{16,64,255,256}; every value 0..rest+2 and "
                           "{0x7F,0x80,0xFF,0x100,0xFFFE,0xFFFF} of the inner length field; CM: all combinations of the five prefixes over "
                           "{0,1,2,3,fits,fits+1,0xFFFF}, and payloads without any zero byte behind string k; IF: stream-id count x vendor length; backgrounds zero / ones / pseudo-random; paths "
                           "class validator / Packet constructor / Decoder / Decoder after reassembly from two segments / TECMP conversion (every CAN, CAN-FD, LIN data length 0..255)";
    return pbtMain(argc, argv, prop);
}
