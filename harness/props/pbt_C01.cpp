// C01 - encode then decode returns the original packets (round trip through a fresh decoder).
#include "../common/gen_enc.h"

using namespace vf;

static Verdict runCase(const EncCase& c, Info& info)
{
    lib::Encoder enc;
    enc.setDeviceId(c.dev);
    enc.setStreamId(c.stream);
    std::vector<lib::Packet> batch = priorCallsThenBatch(enc, c);
    std::vector<Snap> src;
    std::vector<size_t> lengths;
    for (const auto& p : batch)
    {
        src.push_back(snap(p));
        lengths.push_back(src.back().payload.size());
        VF_CHECK(src.back().valid && !src.back().payload.empty(), "generator produced an invalid/empty source packet");
    }

    auto frames = encodeVia(enc, batch, lib::DataContext{c.minB, c.maxB}, c.overload);

    lib::Decoder dec;
    std::vector<std::shared_ptr<lib::Packet>> out;
    for (const auto& f : frames)
    {
        auto got = decodeOwned(dec, f);
        out.insert(out.end(), got.begin(), got.end());
    }

    VF_CHECK(out.size() == src.size(), "decoded " << out.size() << " packets, sent " << src.size() << " (frames=" << frames.size() << ")");
    for (size_t i = 0; i < src.size(); ++i)
    {
        VF_CHECK(out[i] != nullptr, "null packet " << i);
        Snap g = snap(*out[i]);
        const Snap& s = src[i];
        VF_CHECK(g.hasPayload, "packet " << i << " has no payload");
        VF_CHECK(g.type32 == s.type32, "packet " << i << " payload type 0x" << std::hex << g.type32 << " != 0x" << s.type32);
        VF_CHECK(g.payload == s.payload, "packet " << i << " payload bytes differ: got " << g.str() << " sent " << s.str());
        VF_CHECK(g.msgType == s.msgType, "packet " << i << " message type " << int(g.msgType) << " != " << int(s.msgType));
        VF_CHECK(g.ts == s.ts, "packet " << i << " timestamp");
        if (s.msgType == wire::kMtData)
            VF_CHECK(g.ifId == s.ifId, "packet " << i << " interface id " << g.ifId << " != " << s.ifId);
        if (s.msgType == wire::kMtStatus || s.msgType == wire::kMtVendor)
            VF_CHECK(g.vendorId == s.vendorId, "packet " << i << " vendor id " << g.vendorId << " != " << s.vendorId);
        VF_CHECK(g.version == c.version, "packet " << i << " version " << int(g.version));
        VF_CHECK((g.flags & ~0x0C) == (s.flags & ~0x0C), "packet " << i << " flags " << int(g.flags) << " vs " << int(s.flags));
        VF_CHECK(g.device == c.dev && g.stream == c.stream, "packet " << i << " endpoint " << g.device << "/" << int(g.stream));
    }

    EncClasses k = classify(c, lengths);
    if (!c.prior.empty())
        info.tag("encoder_had_earlier_calls");
    {
        static const char* ov[] = {"overload_packet_iterators", "overload_shared_ptr_iterators", "overload_forward_list_iterators", "overload_single_packet"};
        info.tag(ov[(c.overload % 4 == 3 && c.packets.size() != 1) ? 0 : c.overload % 4]);
    }
    if (k.segmented)
        info.tag("segmented");
    if (k.aggregated)
        info.tag("aggregated");
    if (k.mixedTypes)
        info.tag("mixed_message_types");
    if (k.nearBoundary)
        info.tag("length_near_fit_boundary");
    if (k.padded)
        info.tag("padded_to_min");
    for (const auto& r : c.packets)
        info.tag(std::string("kind_") + kindName(r.kind) + (r.viaApi && r.kind ? "_api" : ""));
    info.nontrivial = k.segmented || k.aggregated || k.mixedTypes || k.nearBoundary;
    info.count("packets", c.packets.size());
    info.count("frames", frames.size());
    return Verdict::pass();
}

int main(int argc, char** argv)
{
    Property<EncCase> prop;
    prop.id = "C01";
    prop.gen = [](int tier) {
        EncGenParams p;
        p.maxBatch = tier ? 40 : 12;
        p.beyond16Bit = true;
        return withPriorCalls(genEncCase(p), p);
    };
    prop.run = runCase;
    return pbtMain(argc, argv, prop);
}
