// C01 - encode then decode returns the original packets (round trip through a fresh decoder, or through one that was left with an
// unfinished earlier message on the same endpoint: what a decoder saw before must not cost a packet of this transmission).
#include "../common/gen_enc.h"

using namespace vf;

static Verdict runCase(const EncCase& c, Info& info)
{
    lib::Encoder enc;
    enc.setDeviceId(c.dev);
    enc.setStreamId(c.stream);
    std::vector<lib::Packet> batch = priorCallsThenBatch(enc, c);
    std::vector<Snap> src;
    std::vector<size_t> lengths;
    for (const auto& p : batch)
    {
        src.push_back(snap(p));
        lengths.push_back(src.back().payload.size());
        VF_CHECK(src.back().valid && !src.back().payload.empty(), "generator produced an invalid/empty source packet");
    }

    auto frames = encodeVia(enc, batch, lib::DataContext{c.minB, c.maxB}, c.overload);

    lib::Decoder dec;
    if (c.decoderSawUnfinished)
    {
        // an earlier transmission on this endpoint whose tail was lost: first segment (+ intermediaries), built by the
        // independent wire builders, same version; whatever it yields is discarded
        for (uint8_t k = 0; k < c.decoderSawUnfinished; ++k)
        {
            wire::MsgHdr mh;
            mh.timestamp = 77;
            mh.idWord = 5;
            mh.flags = static_cast<uint8_t>((k == 0 ? wire::kSegFirst : wire::kSegMid) << 2);
            mh.payloadType = 0x20;
            Bytes chunk = fillBytes(k, 12);
            mh.length = static_cast<uint16_t>(chunk.size());
            Bytes frame;
            wire::CmpHdr h{c.version, 0, c.dev, wire::kMtData, c.stream, static_cast<uint16_t>(40000 + k)};
            wire::putCmpHdr(frame, h);
            wire::putBytes(frame, wire::buildMessage(mh, chunk));
            decodeOwned(dec, frame);
        }
        info.tag("decoder_left_with_an_unfinished_earlier_message");
    }
    std::vector<std::shared_ptr<lib::Packet>> out;
    for (const auto& f : frames)
    {
        auto got = decodeOwned(dec, f);
        out.insert(out.end(), got.begin(), got.end());
    }

    VF_CHECK(out.size() == src.size(), "decoded " << out.size() << " packets, sent " << src.size() << " (frames=" << frames.size() << ")");
    for (size_t i = 0; i < src.size(); ++i)
    {
        VF_CHECK(out[i] != nullptr, "null packet " << i);
        Snap g = snap(*out[i]);
        const Snap& s = src[i];
        VF_CHECK(g.hasPayload, "packet " << i << " has no payload");
        VF_CHECK(g.type32 == s.type32, "packet " << i << " payload type 0x" << std::hex << g.type32 << " != 0x" << s.type32);
        VF_CHECK(g.payload == s.payload, "packet " << i << " payload bytes differ: got " << g.str() << " sent " << s.str());
        VF_CHECK(g.msgType == s.msgType, "packet " << i << " message type " << int(g.msgType) << " != " << int(s.msgType));
        VF_CHECK(g.ts == s.ts, "packet " << i << " timestamp");
        if (s.msgType == wire::kMtData)
            VF_CHECK(g.ifId == s.ifId, "packet " << i << " interface id " << g.ifId << " != " << s.ifId);
        if (s.msgType == wire::kMtStatus || s.msgType == wire::kMtVendor)
            VF_CHECK(g.vendorId == s.vendorId, "packet " << i << " vendor id " << g.vendorId << " != " << s.vendorId);
        VF_CHECK(g.version == c.version, "packet " << i << " version " << int(g.version));
        VF_CHECK((g.flags & ~0x0C) == (s.flags & ~0x0C), "packet " << i << " flags " << int(g.flags) << " vs " << int(s.flags));
        VF_CHECK(g.device == c.dev && g.stream == c.stream, "packet " << i << " endpoint " << g.device << "/" << int(g.stream));
    }

    EncClasses k = classify(c, lengths);
    if (!c.prior.empty())
        info.tag("encoder_had_earlier_calls");
    if (c.bulkFrames)
        info.tag("encoder_emitted_about_65536_frames_before");
    if (c.flagToggle & 0x33)
        info.tag("packet_objects_sent_before_with_single_flag_bits_inverted");
    {
        static const char* ov[] = {"overload_packet_iterators", "overload_shared_ptr_iterators", "overload_forward_list_iterators", "overload_single_packet"};
        info.tag(ov[(c.overload % 4 == 3 && c.packets.size() != 1) ? 0 : c.overload % 4]);
    }
    if (k.segmented)
        info.tag("segmented");
    if (k.aggregated)
        info.tag("aggregated");
    if (k.mixedTypes)
        info.tag("mixed_message_types");
    if (k.nearBoundary)
        info.tag("length_near_fit_boundary");
    if (k.padded)
        info.tag("padded_to_min");
    for (const auto& r : c.packets)
        info.tag(std::string("kind_") + kindName(r.kind) + (r.viaApi && r.kind ? "_api" : ""));
    info.nontrivial = k.segmented || k.aggregated || k.mixedTypes || k.nearBoundary;
    info.count("packets", c.packets.size());
    info.count("frames", frames.size());
    return Verdict::pass();
}

int main(int argc, char** argv)
{
    Property<EncCase> prop;
    prop.id = "C01";
    prop.gen = [](int tier) {
        EncGenParams p;
        p.maxBatch = tier ? 40 : 12;
        p.beyond16Bit = true;
        return rc::gen::exec([p]() {
            EncCase c = *withPriorCalls(genEncCase(p), p);
            if (*range<int>(0, 3) == 0)
                c.decoderSawUnfinished = *range<uint8_t>(1, 3);
            return c;
        });
    };
    prop.run = runCase;
    prop.normalize = [](EncCase& c) {
        EncNormParams np;  // C01: no error flag, no empty payloads, message types != 0
        normalizeEncCase(c, np);
    };
    return pbtMain(argc, argv, prop);
}
