// C06 - loss, duplication or reordering never yields a corrupted packet; the decoder recovers on its own.
// Fault injection over generated streams + exhaustive single (thorough: double) faults on small streams.
#include "../common/frames.h"
#include "../common/gen_frames.h"

using namespace vf;

struct MsgSpec
{
    uint8_t nSeg{1};    // 1 = unsegmented frame
    uint8_t nUnseg{1};  // messages per unsegmented frame
    uint16_t segLen{8};
    uint16_t lastLen{8};
    void io(Ar& a)
    {
        a.num("nSeg", nSeg);
        a.num("nUnseg", nUnseg);
        a.num("segLen", segLen);
        a.num("lastLen", lastLen);
    }
};
struct EpSpec
{
    uint16_t dev{1};
    uint8_t stream{0};
    uint8_t version{1};
    uint8_t msgType{1};
    uint16_t startSeq{0};
    std::vector<MsgSpec> msgs;
    void io(Ar& a)
    {
        a.num("dev", dev);
        a.num("stream", stream);
        a.num("version", version);
        a.num("msgType", msgType);
        a.num("startSeq", startSeq);
        a.vec("msgs", msgs);
    }
};
struct FaultOp
{
    uint8_t kind{0};  // 0 drop i, 1 duplicate i to j, 2 swap i/i+1, 3 move i to j, 4 corrupt version of segment frame i, 5 corrupt message type of segment frame i
    uint16_t i{0};
    uint16_t j{0};
    uint8_t val{1};
    void io(Ar& a)
    {
        a.num("kind", kind);
        a.num("i", i);
        a.num("j", j);
        a.num("val", val);
    }
};
struct Case
{
    uint8_t viaEncoder{0};
    std::vector<EpSpec> eps;
    std::vector<uint8_t> schedule;
    std::vector<FaultOp> faults;
    uint16_t minB{0};  // minimum frame size of the sender: shorter frames are zero-padded up to it (DataContext::minBytesPerMessage)
    void io(Ar& a)
    {
        a.num("viaEncoder", viaEncoder);
        a.vec("eps", eps);
        a.numvec("schedule", schedule);
        a.vec("faults", faults);
        a.optionalNum("minB", minB);
    }
};

struct SentMessage
{
    size_t endpoint{0};
    Bytes payload;
    wire::MsgHdr hdr;  // header fields as sent (first segment)
    uint8_t version{0};
    uint8_t msgType{0};
    size_t nFrames{1};
    bool corrupted{false};  // a version/type corruption hit one of its frames
    bool faultHit{false};
};
struct Frame
{
    Bytes bytes;
    size_t endpoint{0};
    std::vector<size_t> unsegMsgs;  // ids of unsegmented messages in this frame
    long segMsg{-1};                // id of the segmented message this frame belongs to
    size_t segIndex{0};
    bool corrupted{false};
};

static Bytes uniquePayload(size_t id, size_t len)
{
    Bytes b = fillBytes(static_cast<uint32_t>(id * 2654435761u + 17), std::max<size_t>(len, 4));
    b[0] = static_cast<uint8_t>(id >> 8);
    b[1] = static_cast<uint8_t>(id);
    b[2] = 0xA5;
    return b;
}

// Builds the unfaulted per-endpoint frame lists with the independent builders (reference segmenter)
static void buildWithOracle(const Case& c, std::vector<std::vector<Frame>>& streams, std::vector<SentMessage>& sent)
{
    for (size_t e = 0; e < c.eps.size(); ++e)
    {
        const EpSpec& ep = c.eps[e];
        uint16_t seq = ep.startSeq;
        std::vector<Frame> frames;
        for (const auto& m : ep.msgs)
        {
            if (m.nSeg <= 1)
            {
                Frame f;
                f.endpoint = e;
                wire::CmpHdr h{ep.version, 0, ep.dev, ep.msgType, ep.stream, seq++};
                wire::putCmpHdr(f.bytes, h);
                for (int k = 0; k < std::max<int>(1, m.nUnseg); ++k)
                {
                    SentMessage s;
                    s.endpoint = e;
                    s.payload = uniquePayload(sent.size(), m.segLen);
                    s.hdr.timestamp = 0x1000 + sent.size();
                    s.hdr.idWord = static_cast<uint32_t>(0x00010000u * e + sent.size());
                    s.hdr.flags = static_cast<uint8_t>((sent.size() & 1) ? 0x21 : 0x02);
                    s.hdr.payloadType = 0x20;
                    s.hdr.length = static_cast<uint16_t>(s.payload.size());
                    s.version = ep.version;
                    s.msgType = ep.msgType;
                    wire::putMsgHdr(f.bytes, s.hdr);
                    wire::putBytes(f.bytes, s.payload);
                    f.unsegMsgs.push_back(sent.size());
                    sent.push_back(std::move(s));
                }
                frames.push_back(std::move(f));
                continue;
            }
            SentMessage s;
            s.endpoint = e;
            size_t total = static_cast<size_t>(m.nSeg - 1) * m.segLen + m.lastLen;
            s.payload = uniquePayload(sent.size(), total);
            total = s.payload.size();
            s.hdr.timestamp = 0x1000 + sent.size();
            s.hdr.idWord = static_cast<uint32_t>(0x00010000u * e + sent.size());
            s.hdr.flags = static_cast<uint8_t>((sent.size() & 1) ? 0x21 : 0x02);
            s.hdr.payloadType = 0x21;
            s.hdr.length = static_cast<uint16_t>(total);
            s.version = ep.version;
            s.msgType = ep.msgType;
            s.nFrames = m.nSeg;
            size_t pos = 0;
            for (size_t k = 0; k < m.nSeg; ++k)
            {
                Frame f;
                f.endpoint = e;
                f.segMsg = static_cast<long>(sent.size());
                f.segIndex = k;
                wire::CmpHdr h{ep.version, 0, ep.dev, ep.msgType, ep.stream, seq++};
                wire::putCmpHdr(f.bytes, h);
                size_t chunk = (k + 1 == m.nSeg) ? total - pos : std::min<size_t>(m.segLen, total - pos);
                wire::MsgHdr mh = s.hdr;
                uint8_t seg = k == 0 ? wire::kSegFirst : (k + 1 == m.nSeg ? wire::kSegLast : wire::kSegMid);
                mh.flags = static_cast<uint8_t>((s.hdr.flags & ~wire::kFlagSegMask) | (seg << 2));
                mh.length = static_cast<uint16_t>(chunk);
                wire::putMsgHdr(f.bytes, mh);
                wire::putBytes(f.bytes, s.payload.data() + pos, chunk);
                pos += chunk;
                frames.push_back(std::move(f));
            }
            sent.push_back(std::move(s));
        }
        // a sender with a minimum frame size pads short frames with zeros (also the last segment of a message)
        for (auto& f : frames)
            if (f.bytes.size() < c.minB)
                f.bytes.resize(c.minB, 0);
        streams.push_back(std::move(frames));
    }
}

// Same logical traffic, frames produced by the library's Encoder (one encoder per endpoint, one encode call per message
// group).  Returns false when the unfaulted stream does not have the expected shape (that would be C01/C08's finding).
static bool buildWithEncoder(const Case& c, std::vector<std::vector<Frame>>& streams, std::vector<SentMessage>& sent)
{
    for (size_t e = 0; e < c.eps.size(); ++e)
    {
        const EpSpec& ep = c.eps[e];
        lib::Encoder enc;
        enc.setDeviceId(ep.dev);
        enc.setStreamId(ep.stream);
        std::vector<Frame> frames;
        for (const auto& m : ep.msgs)
        {
            std::vector<lib::Packet> batch;
            size_t firstId = sent.size();
            int n = m.nSeg <= 1 ? std::max<int>(1, m.nUnseg) : 1;
            size_t total = m.nSeg <= 1 ? m.segLen : static_cast<size_t>(m.nSeg - 1) * m.segLen + m.lastLen;
            for (int k = 0; k < n; ++k)
            {
                SentMessage s;
                s.endpoint = e;
                s.payload = uniquePayload(sent.size(), total);
                s.hdr.timestamp = 0x1000 + sent.size();
                s.hdr.idWord = static_cast<uint32_t>(0x00010000u * e + sent.size());
                s.hdr.flags = static_cast<uint8_t>((sent.size() & 1) ? 0x21 : 0x02);
                s.hdr.payloadType = 0x20;
                s.hdr.length = static_cast<uint16_t>(s.payload.size());
                s.version = ep.version;
                s.msgType = ep.msgType;
                lib::Packet p;
                p.setPayload(lib::Payload(lib::PayloadType(static_cast<lib::CmpHeader::MessageType>(ep.msgType), 0x20), s.payload.data(),
                                          s.payload.size()));
                p.setVersion(ep.version);
                p.setTimestamp(s.hdr.timestamp);
                if (ep.msgType == wire::kMtData)
                    p.setInterfaceId(s.hdr.idWord);
                else
                {
                    s.hdr.idWord &= 0xFFFF;
                    p.setVendorId(static_cast<uint16_t>(s.hdr.idWord));
                }
                p.setCommonFlags(s.hdr.flags);
                batch.push_back(p);
                sent.push_back(std::move(s));
            }
            size_t maxB = m.nSeg <= 1 ? 24 + (16 + sent[firstId].payload.size()) * static_cast<size_t>(n) : 24 + std::max<size_t>(1, m.segLen);
            auto enc_frames = enc.encode(batch.begin(), batch.end(), lib::DataContext{std::min<size_t>(c.minB, maxB), maxB});
            // attribute frames to messages with the independent walker
            size_t id = firstId;
            size_t segIdx = 0;
            for (auto& fb : enc_frames)
            {
                Frame f;
                f.endpoint = e;
                f.bytes = fb;
                auto w = model::walkFrame(fb);
                if (!w.isCmp || w.messages.empty())
                    return false;
                for (const auto& wm : w.messages)
                {
                    if (id >= sent.size())
                        return false;
                    uint8_t seg = wm.hdr.seg();
                    if (seg == wire::kSegNone)
                    {
                        f.unsegMsgs.push_back(id++);
                    }
                    else
                    {
                        f.segMsg = static_cast<long>(id);
                        f.segIndex = segIdx++;
                        if (seg == wire::kSegLast)
                        {
                            sent[id].nFrames = segIdx;
                            ++id;
                            segIdx = 0;
                        }
                    }
                }
                frames.push_back(std::move(f));
            }
            if (id != sent.size() || segIdx != 0)
                return false;
        }
        streams.push_back(std::move(frames));
    }
    return true;
}

static Verdict runCase(const Case& c, Info& info)
{
    std::vector<std::vector<Frame>> streams;
    std::vector<SentMessage> sent;
    if (c.viaEncoder)
    {
        if (!buildWithEncoder(c, streams, sent))
        {
            info.tag("discarded_encoder_stream_malformed");
            return Verdict::pass();
        }
        info.tag("frames_from_library_encoder");
    }
    else
        buildWithOracle(c, streams, sent);

    // merge endpoints by schedule
    std::vector<Frame> stream;
    {
        std::vector<size_t> next(streams.size(), 0);
        size_t total = 0;
        for (auto& s : streams)
            total += s.size();
        size_t si = 0;
        while (stream.size() < total)
        {
            size_t pick = c.schedule.empty() ? 0 : c.schedule[si % c.schedule.size()] % streams.size();
            ++si;
            for (size_t k = 0; k < streams.size(); ++k)
            {
                size_t e = (pick + k) % streams.size();
                if (next[e] < streams[e].size())
                {
                    stream.push_back(streams[e][next[e]++]);
                    break;
                }
            }
        }
    }
    if (stream.empty())
        return Verdict::pass();
    VF_CHECK(stream.size() < 65536, "generator: stream too long");

    // the unfaulted stream must round-trip (otherwise the failure is not a fault-handling one)
    {
        lib::Decoder d0;
        size_t n = 0;
        for (const auto& f : stream)
            n += decodeOwned(d0, f.bytes).size();
        if (n != sent.size())
        {
            if (c.viaEncoder)
            {
                info.tag("discarded_encoder_stream_does_not_round_trip");
                return Verdict::pass();
            }
            VF_CHECK(n == sent.size(), "unfaulted oracle-built stream delivered " << n << " of " << sent.size() << " messages");
        }
    }

    // apply faults
    bool hitSegmented = false;
    auto markHit = [&](const Frame& f) {
        if (f.segMsg >= 0)
        {
            sent[static_cast<size_t>(f.segMsg)].faultHit = true;
            hitSegmented = true;
        }
    };
    for (const auto& op : c.faults)
    {
        if (stream.empty())
            break;
        size_t n = stream.size();
        size_t i = op.i % n;
        switch (op.kind)
        {
            case 0:
                markHit(stream[i]);
                stream.erase(stream.begin() + static_cast<long>(i));
                info.tag("fault_drop");
                break;
            case 1:
            {
                Frame copy = stream[i];
                markHit(copy);
                size_t j = op.j % (n + 1);
                stream.insert(stream.begin() + static_cast<long>(j), copy);
                info.tag("fault_duplicate");
                break;
            }
            case 2:
                if (i + 1 < n)
                {
                    markHit(stream[i]);
                    markHit(stream[i + 1]);
                    std::swap(stream[i], stream[i + 1]);
                    info.tag("fault_swap");
                }
                break;
            case 3:
            {
                Frame f = stream[i];
                markHit(f);
                stream.erase(stream.begin() + static_cast<long>(i));
                size_t j = op.j % n;
                stream.insert(stream.begin() + static_cast<long>(j), f);
                info.tag("fault_move");
                break;
            }
            case 4:
            case 5:
            {
                Frame& f = stream[i];
                if (f.segMsg < 0)
                    break;  // corruption is applied to segment frames only, as the statement says
                if (op.kind == 4)
                {
                    uint8_t v = static_cast<uint8_t>(f.bytes[0] ^ op.val);
                    if (v == 0 || v == f.bytes[0])
                        v = static_cast<uint8_t>(f.bytes[0] == 1 ? 2 : 1);
                    f.bytes[0] = v;
                    info.tag("fault_corrupt_version");
                }
                else
                {
                    uint8_t t = static_cast<uint8_t>(f.bytes[4] ^ op.val);
                    if (t == 0 || t == f.bytes[4])
                        t = static_cast<uint8_t>(f.bytes[4] == 1 ? 3 : 1);
                    f.bytes[4] = t;
                    info.tag("fault_corrupt_message_type");
                }
                f.corrupted = true;
                sent[static_cast<size_t>(f.segMsg)].corrupted = true;
                markHit(f);
                break;
            }
        }
    }

    // run the faulted stream
    lib::Decoder dec;
    std::vector<std::vector<size_t>> projection(c.eps.size());  // per endpoint: indices into `stream` seen so far
    size_t recovered = 0, recoveredAfterFault = 0;
    std::vector<bool> endpointHadFault(c.eps.size(), false);
    for (size_t i = 0; i < stream.size(); ++i)
    {
        const Frame& f = stream[i];
        const EpSpec& ep = c.eps[f.endpoint];
        auto got = decodeOwned(dec, f.bytes);
        std::vector<long> deliveredIds;
        for (size_t k = 0; k < got.size(); ++k)
        {
            VF_CHECK(got[k] != nullptr, "frame " << i << ": null packet");
            Snap g = snap(*got[k]);
            VF_CHECK(g.hasPayload, "frame " << i << ": packet without payload");
            VF_CHECK(g.device == ep.dev && g.stream == ep.stream, "frame " << i << ": packet tagged " << g.device << "/" << int(g.stream));
            // safety: byte-identical to one sent packet of that endpoint
            long id = -1;
            for (size_t s = 0; s < sent.size(); ++s)
                if (sent[s].endpoint == f.endpoint && sent[s].payload == g.payload)
                {
                    id = static_cast<long>(s);
                    break;
                }
            VF_CHECK(id >= 0, "frame " << i << " delivered a packet that was never sent on this endpoint (mixture, hole or repetition): " << g.str());
            const SentMessage& P = sent[static_cast<size_t>(id)];
            if (!P.corrupted)
            {
                VF_CHECK(g.version == P.version, "frame " << i << ": delivered message " << id << " with version " << int(g.version) << ", sent " << int(P.version));
                VF_CHECK(g.msgType == P.msgType, "frame " << i << ": delivered message " << id << " with message type " << int(g.msgType));
                VF_CHECK(g.rawType == P.hdr.payloadType || c.viaEncoder, "frame " << i << ": payload type of message " << id);
                VF_CHECK(g.ts == P.hdr.timestamp, "frame " << i << ": timestamp of message " << id);
                VF_CHECK((g.flags & ~0x0C) == (P.hdr.flags & ~0x0C), "frame " << i << ": flags of message " << id);
                if (P.msgType == wire::kMtData)
                    VF_CHECK(g.ifId == P.hdr.interfaceId(), "frame " << i << ": interface id of message " << id);
                if (P.msgType == wire::kMtStatus || P.msgType == wire::kMtVendor)
                    VF_CHECK(g.vendorId == P.hdr.vendorId(), "frame " << i << ": vendor id of message " << id);
            }
            deliveredIds.push_back(id);
        }
        // recovery obligations
        auto delivered = [&](size_t id) { return std::find(deliveredIds.begin(), deliveredIds.end(), static_cast<long>(id)) != deliveredIds.end(); };
        for (size_t id : f.unsegMsgs)
        {
            VF_CHECK(delivered(id), "frame " << i << " carries unsegmented message " << id << " which was not delivered");
            ++recovered;
            if (endpointHadFault[f.endpoint])
                ++recoveredAfterFault;
        }
        if (f.segMsg >= 0)
        {
            const SentMessage& M = sent[static_cast<size_t>(f.segMsg)];
            auto& proj = projection[f.endpoint];
            if (f.segIndex + 1 == M.nFrames && !f.corrupted && proj.size() >= M.nFrames - 1)
            {
                bool complete = true;
                for (size_t k = 0; k + 1 < M.nFrames && complete; ++k)
                {
                    const Frame& prev = stream[proj[proj.size() - (M.nFrames - 1) + k]];
                    complete = prev.segMsg == f.segMsg && prev.segIndex == k && !prev.corrupted;
                }
                if (complete)
                {
                    VF_CHECK(delivered(static_cast<size_t>(f.segMsg)),
                             "frame " << i << " completes message " << f.segMsg << " (" << M.nFrames
                                      << " frames, in order, uncorrupted, uninterrupted on its endpoint) but it was not delivered");
                    ++recovered;
                    if (endpointHadFault[f.endpoint])
                        ++recoveredAfterFault;
                }
            }
            if (M.faultHit)
                endpointHadFault[f.endpoint] = true;
        }
        projection[f.endpoint].push_back(i);
    }
    info.count("recovered_deliveries", recovered);
    info.count("frames", stream.size());
    if (hitSegmented)
        info.tag("fault_hit_segmented_message");
    if (c.schedule.size() >= 120)
        info.tag("long_run_of_another_endpoint_between_segments");
    if (c.minB)
        info.tag("sender_pads_frames_to_a_minimum_size");
    for (const auto& sm : sent)
        if (sm.nFrames > 1 && sm.payload.size() >= 65500)
        {
            info.tag("segmented_message_of_65500_or_more_bytes");
            break;
        }
    if (recoveredAfterFault)
        info.tag("complete_message_delivered_after_fault_on_its_endpoint");
    info.nontrivial = hitSegmented && recoveredAfterFault > 0;
    return Verdict::pass();
}

static Case genBase(int tier, bool small)
{
    Case c;
    c.viaEncoder = *rc::gen::weightedElement<uint8_t>({{3, 0}, {1, 1}});
    int nEp = *range<int>(1, 3);
    // plain endpoints, or (a third of the cases) a base endpoint plus endpoints a key / hash / comparison could confuse with it
    const auto alphabet = genEndpointAlphabet();
    for (int e = 0; e < nEp; ++e)
    {
        EpSpec ep;
        ep.dev = alphabet[e].first;
        ep.stream = alphabet[e].second;
        ep.version = *rc::gen::element<uint8_t>(1, 1, 2, 255);
        ep.msgType = *rc::gen::element<uint8_t>(1, 1, 3, 0xFF, 2);
        ep.startSeq = *rc::gen::element<uint16_t>(0, 1, 1000, 65530, 65534, 65535, 32760, 32765, 32766, 32767);  // also next to 0x7FFF -> 0x8000 (signed views of the counter)
        int nMsg = small ? *range<int>(1, 3) : *range<int>(3, tier ? 12 : 8);
        for (int m = 0; m < nMsg; ++m)
        {
            MsgSpec ms;
            ms.nSeg = *rc::gen::weightedElement<uint8_t>({{2, 1}, {3, 2}, {3, 3}, {1, 4}, {1, 5}});
            ms.nUnseg = *range<uint8_t>(1, 3);
            ms.segLen = *range<uint16_t>(4, 24);
            ms.lastLen = *range<uint16_t>(1, ms.segLen);
            // one segmented message in sixteen is large: a total at the top of the 16-bit length range, around 2^15, or anywhere
            if (!small && ms.nSeg >= 2 && *range<int>(0, 15) == 0)
            {
                size_t total = *rc::gen::weightedOneOf<size_t>({{3, range<size_t>(65500, 65535)}, {1, range<size_t>(32750, 32790)}, {1, range<size_t>(1000, 65535)}});
                ms.segLen = static_cast<uint16_t>(total / ms.nSeg);
                ms.lastLen = static_cast<uint16_t>(total - static_cast<size_t>(ms.nSeg - 1) * ms.segLen);
            }
            ep.msgs.push_back(ms);
        }
        c.eps.push_back(ep);
    }
    int nSched = *range<int>(1, 20);
    for (int i = 0; i < nSched; ++i)
        c.schedule.push_back(*range<uint8_t>(0, 2));
    // a third of the senders have a minimum frame size: short frames - typically the last segment of a message - are zero-padded
    if (*range<int>(0, 2) == 0)
        c.minB = *rc::gen::element<uint16_t>(40, 48, 60, 64, 64, 100);
    // one stream in ten: a chatty endpoint - hundreds of unsegmented frames of one endpoint pass between two consecutive segments of
    // another endpoint's message ("uninterrupted on its endpoint" says nothing about how much other traffic lies in between)
    if (!small && c.eps.size() >= 2 && *range<int>(0, 9) == 0)
    {
        size_t chatty = *range<size_t>(0, c.eps.size() - 1);
        int gap = *rc::gen::weightedOneOf<int>({{3, range<int>(120, 300)}, {1, range<int>(1000, 1100)}, {1, range<int>(30, 119)}});
        EpSpec& ep = c.eps[chatty];
        MsgSpec u;
        u.nSeg = 1;
        u.nUnseg = 1;
        u.segLen = 4;
        u.lastLen = 4;
        ep.msgs.insert(ep.msgs.begin(), static_cast<size_t>(gap) * 3, u);
        c.schedule.clear();
        for (size_t e = 0; e < c.eps.size(); ++e)
            if (e != chatty)
                c.schedule.push_back(static_cast<uint8_t>(e));
        c.schedule.insert(c.schedule.end(), static_cast<size_t>(gap), static_cast<uint8_t>(chatty));
    }
    return c;
}

static rc::Gen<Case> genCase(int tier)
{
    return rc::gen::exec([tier]() {
        Case c = genBase(tier, false);
        int nFaults = *range<int>(1, tier ? 6 : 3);
        for (int i = 0; i < nFaults; ++i)
        {
            FaultOp op;
            op.kind = *rc::gen::weightedElement<uint8_t>({{3, 0}, {3, 1}, {3, 2}, {2, 3}, {2, 4}, {2, 5}});
            op.i = *range<uint16_t>(0, 200);
            op.j = *range<uint16_t>(0, 200);
            op.val = *rc::gen::element<uint8_t>(1, 2, 3, 0xFE);
            c.faults.push_back(op);
        }
        return c;
    });
}

// deterministic base streams for the exhaustive fault enumeration
static Case fixedBase(uint32_t s)
{
    Case c;
    c.viaEncoder = (s % 4 == 3) ? 1 : 0;
    int nEp = 1 + static_cast<int>(s % 2);
    for (int e = 0; e < nEp; ++e)
    {
        EpSpec ep;
        ep.dev = static_cast<uint16_t>(1 + e);
        ep.stream = static_cast<uint8_t>(e * 5);
        ep.msgType = (s % 5 == 4) ? 3 : 1;
        ep.startSeq = (s % 3 == 0) ? 65533 : static_cast<uint16_t>(mix(s, 9) % 1000);
        int nMsg = 1 + static_cast<int>(mix(s, static_cast<uint32_t>(e)) % 2);
        for (int m = 0; m < nMsg; ++m)
        {
            MsgSpec ms;
            uint32_t r = mix(s, static_cast<uint32_t>(10 + e * 7 + m));
            ms.nSeg = static_cast<uint8_t>(1 + r % 3);
            ms.nUnseg = static_cast<uint8_t>(1 + (r >> 4) % 2);
            ms.segLen = static_cast<uint16_t>(4 + (r >> 8) % 9);
            ms.lastLen = static_cast<uint16_t>(1 + (r >> 12) % ms.segLen);
            ep.msgs.push_back(ms);
        }
        // always end with a segmented message so that recovery after a fault is observable
        MsgSpec tail;
        tail.nSeg = 2;
        tail.segLen = 6;
        tail.lastLen = 3;
        ep.msgs.push_back(tail);
        c.eps.push_back(ep);
    }
    for (uint32_t k = 0; k < 5; ++k)
        c.schedule.push_back(static_cast<uint8_t>(mix(s, 100 + k) % 2));
    return c;
}

static size_t frameCount(const Case& c)
{
    size_t n = 0;
    for (const auto& ep : c.eps)
        for (const auto& m : ep.msgs)
            n += m.nSeg <= 1 ? 1 : m.nSeg;
    return n;
}

static void allSingleFaults(size_t n, std::vector<FaultOp>& out)
{
    for (uint16_t i = 0; i < n; ++i)
    {
        out.push_back({0, i, 0, 1});
        out.push_back({2, i, 0, 1});
        out.push_back({4, i, 0, 1});
        out.push_back({5, i, 0, 2});
        for (uint16_t j = 0; j <= n; ++j)
            out.push_back({1, i, j, 1});
        for (uint16_t j = 0; j < n; ++j)
            if (j != i)
                out.push_back({3, i, j, 1});
    }
}

static void enumerate(int tier, const std::function<bool(const Case&)>& emit)
{
    uint32_t nBases = tier ? 120 : 40;
    for (uint32_t s = 1; s <= nBases; ++s)
    {
        Case base = fixedBase(s);
        size_t n = frameCount(base);
        if (n > 12)
            continue;
        std::vector<FaultOp> singles;
        allSingleFaults(n, singles);
        for (const auto& f : singles)
        {
            Case c = base;
            c.faults = {f};
            if (!emit(c))
                return;
        }
        if (tier && s <= 14)
        {
            // all pairs of faults (second fault positions refer to the stream after the first fault)
            std::vector<FaultOp> seconds;
            allSingleFaults(n + 1, seconds);
            for (const auto& f1 : singles)
                for (const auto& f2 : seconds)
                {
                    Case c = base;
                    c.faults = {f1, f2};
                    if (!emit(c))
                        return;
                }
        }
    }
}

int main(int argc, char** argv)
{
    Property<Case> prop;
    prop.id = "C06";
    prop.gen = genCase;
    prop.run = runCase;
    prop.enumerate = enumerate;
    prop.enumerationIsExhaustive = true;
    prop.enumerationNote = "every single fault (drop / duplicate-to-every-position / swap / move-to-every-position / corrupt version / corrupt "
                           "message type) at every frame position of 40 (thorough 120) deterministic base streams of <= 12 frames; thorough: also "
                           "every pair of faults on the first 14 base streams";
    return pbtMain(argc, argv, prop);
}
