// C16 - the status tracker equals a per-device, per-interface latest-message map (stateful model + bounded exhaustive).
#include "../common/status_ops.h"

using namespace vf;

using Op = StatusOp;

struct Case
{
    std::vector<Op> ops;
    void io(Ar& a)
    {
        a.vec("ops", ops);
    }
};

struct ModelDevice
{
    Snap cm;
    std::map<uint32_t, Snap> ifaces;
};

static std::set<uint16_t> g_probeDevs;
static std::set<uint32_t> g_probeIfs;

static Verdict compare(const lib::Status& st, const std::map<uint16_t, ModelDevice>& model, size_t opIndex)
{
    std::ostringstream w;
    w << "after op " << opIndex;
    VF_CHECK(st.getDeviceStatusCount() == model.size(), w.str() << ": " << st.getDeviceStatusCount() << " device entries, expected " << model.size());
    std::set<uint16_t> seenDev;
    for (size_t i = 0; i < st.getDeviceStatusCount(); ++i)
    {
        uint16_t id = st.getDeviceStatus(i).getPacket().getDeviceId();
        VF_CHECK(seenDev.insert(id).second, w.str() << ": device id " << id << " has two entries");
        VF_CHECK(model.count(id), w.str() << ": entry for device " << id << " which has no capture-module status since it was last removed");
    }
    for (uint16_t d : g_probeDevs)
    {
        size_t idx = st.getIndexByDeviceId(d);
        if (!model.count(d))
        {
            VF_CHECK(idx == st.getDeviceStatusCount(), w.str() << ": lookup of unknown device " << d << " returns " << idx << ", not the element count");
            continue;
        }
        VF_CHECK(idx < st.getDeviceStatusCount(), w.str() << ": lookup of device " << d << " returns " << idx << " (count " << st.getDeviceStatusCount() << ")");
        const lib::DeviceStatus& ds = st.getDeviceStatus(idx);
        const ModelDevice& md = model.at(d);
        Snap got = snap(ds.getPacket());
        VF_CHECK(got == md.cm, w.str() << ": device " << d << " holds " << got.str() << ", latest capture-module status is " << md.cm.str());
        VF_CHECK(ds.getInterfaceStatusCount() == md.ifaces.size(), w.str() << ": device " << d << " has " << ds.getInterfaceStatusCount() << " interface entries, expected " << md.ifaces.size());
        std::set<uint32_t> seenIf;
        for (size_t j = 0; j < ds.getInterfaceStatusCount(); ++j)
        {
            uint32_t iid = ds.getInterfaceStatus(j).getInterfaceId();
            VF_CHECK(seenIf.insert(iid).second, w.str() << ": device " << d << " interface " << iid << " has two entries");
            VF_CHECK(md.ifaces.count(iid), w.str() << ": device " << d << " has an entry for interface " << iid << " which was not seen since the last removal");
        }
        for (uint32_t i : g_probeIfs)
        {
            size_t j = ds.getIndexByInterfaceId(i);
            if (!md.ifaces.count(i))
            {
                VF_CHECK(j == ds.getInterfaceStatusCount(), w.str() << ": lookup of unknown interface " << i << " of device " << d << " returns " << j);
                continue;
            }
            VF_CHECK(j < ds.getInterfaceStatusCount(), w.str() << ": lookup of interface " << i << " of device " << d << " returns " << j);
            VF_CHECK(ds.getInterfaceStatus(j).getInterfaceId() == i, w.str() << ": interface entry " << j << " reports id " << ds.getInterfaceStatus(j).getInterfaceId());
            Snap gi = snap(ds.getInterfaceStatus(j).getPacket());
            VF_CHECK(gi == md.ifaces.at(i), w.str() << ": device " << d << " interface " << i << " holds " << gi.str() << ", latest is " << md.ifaces.at(i).str());
        }
    }
    return Verdict::pass();
}

static Verdict runCase(const Case& c, Info& info)
{
    lib::Status st;
    std::map<uint16_t, ModelDevice> model;
    bool removed = false, updateAfterRemoval = false;
    // lookups are probed for every id the case uses plus two ids it never uses
    g_probeDevs = {4, 0x7777};
    g_probeIfs = {9, 0x77777777u};
    bool bigTable = false;
    for (const auto& op : c.ops)
    {
        g_probeDevs.insert(op.dev);
        g_probeIfs.insert(op.iface);
        if (op.kind <= 1 && op.burst)
        {
            // a burst is probed at its ends, its middle and around the 256th / 1024th entry
            for (uint32_t k : {uint32_t(op.burst), uint32_t(op.burst / 2), 254u, 255u, 256u, 257u, 1023u, 1024u})
                if (k <= op.burst)
                {
                    if (op.kind == 0)
                        g_probeDevs.insert(static_cast<uint16_t>(op.dev + k));
                    else
                        g_probeIfs.insert(op.iface + k);
                }
            if (op.burst >= 256)
                bigTable = true;
        }
    }
    for (size_t i = 0; i < c.ops.size(); ++i)
    {
        const Op& op = c.ops[i];
        switch (op.kind)
        {
            case 0:
            case 1:
            case 2:
            case 6:
            {
                const uint32_t n = op.kind <= 1 ? op.burst : 0;
                for (uint32_t k = 0; k <= n; ++k)
                {
                    Op o = op;
                    if (op.kind == 0)
                        o.dev = static_cast<uint16_t>(op.dev + k);
                    else if (op.kind == 1)
                        o.iface = op.iface + k;
                    lib::Packet p = makeStatusUpdate(o, i + 1000 * static_cast<size_t>(k));
                    Snap s = snap(p);
                    st.update(p);
                    if (o.kind == 0)
                        model[o.dev].cm = s;
                    else if (o.kind == 1 && model.count(o.dev))
                        model[o.dev].ifaces[o.iface] = s;
                }
                if (removed && op.kind <= 1)
                    updateAfterRemoval = true;
                break;
            }
            case 3:
                st.removeDeviceById(op.dev);
                if (model.erase(op.dev))
                    removed = true;
                break;
            case 4:
            {
                size_t idx = st.getIndexByDeviceId(op.dev);
                if (idx < st.getDeviceStatusCount())
                    st.getDeviceStatus(idx).removeInterfaceById(op.iface);
                if (model.count(op.dev) && model[op.dev].ifaces.erase(op.iface))
                    removed = true;
                break;
            }
            default:
                st.clear();
                if (!model.empty())
                    removed = true;
                model.clear();
                break;
        }
        VF_TRY(compare(st, model, i));
    }
    if (updateAfterRemoval)
        info.tag("update_after_a_removal");
    if (removed)
        info.tag("has_effective_removal");
    if (bigTable)
        info.tag("burst_of_256_or_more_distinct_ids");
    info.count("ops", c.ops.size());
    info.nontrivial = updateAfterRemoval;
    return Verdict::pass();
}

static rc::Gen<Case> genCase(int tier)
{
    return rc::gen::exec([tier]() {
        Case c;
        int n = *range<int>(1, tier ? 120 : 60);
        // id pools: the plain ones, or a base id plus ids arithmetically related to it (same value modulo small powers of two,
        // one byte / one bit changed) - what a bucket, filter, hash or sorted structure inside the tracker could confuse
        std::vector<uint16_t> devs = {0, 1, 2, 3, 65535};
        std::vector<uint32_t> ifs = {0, 1, 2, 0xFFFFFFFFu};
        if (*range<int>(0, 1) == 0)
        {
            uint16_t d = *rc::gen::element<uint16_t>(0, 1, 5, 37, 63, 255, 0x1234);
            devs = {d, static_cast<uint16_t>(d + 64), static_cast<uint16_t>(d + 256), static_cast<uint16_t>(d ^ 0x8000), static_cast<uint16_t>(d + 1),
                    static_cast<uint16_t>(d + 128), static_cast<uint16_t>(d + 32)};
            uint32_t i0 = *rc::gen::element<uint32_t>(0, 1, 7, 63, 0x10);
            ifs = {i0, i0 + 64, i0 + 256, i0 + 65536, i0 ^ 0x80000000u, i0 + 1, i0 + 32};
        }
        for (int i = 0; i < n; ++i)
        {
            Op op;
            op.kind = *rc::gen::weightedElement<uint8_t>({{5, 0}, {8, 1}, {2, 2}, {3, 3}, {3, 4}, {1, 5}, {3, 6}});
            op.dev = devs[*range<size_t>(0, devs.size() - 1)];
            op.iface = ifs[*range<size_t>(0, ifs.size() - 1)];
            op.viaDecoder = *range<uint8_t>(0, 1);
            // two fifths of the updates carry one of three fixed payload contents: the same report again, with other header fields
            op.content = *rc::gen::weightedElement<uint8_t>({{6, 0}, {2, 1}, {1, 2}, {1, 3}});
            c.ops.push_back(op);
        }
        // one case in ten: many entries alive at once - one update becomes a burst over consecutive ids (table sizes around 2^8 / 2^10)
        if (*range<int>(0, 9) == 0)
        {
            std::vector<size_t> cand;
            for (size_t i = 0; i < c.ops.size(); ++i)
                if (c.ops[i].kind <= 1)
                    cand.push_back(i);
            if (!cand.empty())
            {
                Op& op = c.ops[cand[*range<size_t>(0, cand.size() - 1)]];
                op.burst = *rc::gen::weightedOneOf<uint16_t>({{3, range<uint16_t>(250, 300)}, {1, range<uint16_t>(1000, 1100)}, {2, range<uint16_t>(8, 70)}});
                if (op.kind == 1 && *range<int>(0, 1) == 0)
                {
                    // make sure the device is tracked when the interfaces arrive
                    Op cm = op;
                    cm.kind = 0;
                    cm.burst = 0;
                    c.ops.insert(c.ops.begin(), cm);
                }
            }
        }
        return c;
    });
}

static void enumerate(int tier, const std::function<bool(const Case&)>& emit)
{
    const std::vector<Op> alphabet = {{0, 0, 0, 0}, {0, 1, 0, 1}, {1, 0, 0, 1}, {1, 0, 1, 0}, {1, 1, 0, 0}, {2, 0, 0, 0},
                                      {3, 0, 0, 0}, {3, 1, 0, 0}, {4, 0, 0, 0}, {4, 0, 1, 0}, {5, 0, 0, 0}, {1, 2, 0, 0}, {6, 0, 0, 0},
                                      // the same payload again (repeating these inside a sequence gives equal payloads, other headers)
                                      {1, 0, 0, 0, 1}, {0, 0, 0, 0, 1}};
    int maxLen = tier ? 5 : 4;
    // the alphabet is enumerated with the plain ids (0, 1, 2 / 0, 1) and with ids that coincide modulo 64 and modulo 256
    static const uint16_t devMap[3][3] = {{0, 1, 2}, {5, 69, 261}, {1, 0x0101, 0x8001}};
    static const uint32_t ifMap[3][2] = {{0, 1}, {1, 65}, {7, 7 + 65536}};
    for (int mapping = 0; mapping < 3; ++mapping)
    for (int len = 1; len <= (mapping == 0 ? maxLen : maxLen - 1); ++len)
    {
        std::vector<size_t> idx(static_cast<size_t>(len), 0);
        while (true)
        {
            Case c;
            for (size_t k : idx)
            {
                Op op = alphabet[k];
                op.dev = devMap[mapping][op.dev % 3];
                op.iface = ifMap[mapping][op.iface % 2];
                c.ops.push_back(op);
            }
            if (!emit(c))
                return;
            int k = len - 1;
            while (k >= 0 && ++idx[static_cast<size_t>(k)] == alphabet.size())
                idx[static_cast<size_t>(k--)] = 0;
            if (k < 0)
                break;
        }
    }
}

int main(int argc, char** argv)
{
    Property<Case> prop;
    prop.id = "C16";
    prop.gen = genCase;
    prop.run = runCase;
    prop.enumerate = enumerate;
    // coverage-guided mode: any ids, operation kinds 0..6, bounded length and bounded bursts
    prop.normalize = [](Case& c) {
        if (c.ops.size() > 60)
            c.ops.resize(60);
        size_t burstTotal = 0;
        for (auto& op : c.ops)
        {
            op.kind = static_cast<uint8_t>(op.kind % 7);
            op.viaDecoder = op.viaDecoder ? 1 : 0;
            op.content = static_cast<uint8_t>(op.content % 4);
            if (op.kind > 1)
                op.burst = 0;
            if (op.burst > 1200)
                op.burst = static_cast<uint16_t>(op.burst % 1201);
            if (burstTotal + op.burst > 1300)
                op.burst = 0;
            burstTotal += op.burst;
        }
    };
    prop.enumerationIsExhaustive = true;
    prop.enumerationNote = "all operation sequences up to length 4 (thorough 5) over a 15-operation alphabet (two devices, two interfaces, an unknown "
                           "device, data packet, removals, clear)";
    return pbtMain(argc, argv, prop);
}
