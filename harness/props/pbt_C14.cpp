// C14 - packets and payloads behave as values (snapshot equality, equality laws).
#include <asam_cmp/tecmp_can_payload.h>
#include <asam_cmp/tecmp_capture_module_payload.h>
#include <asam_cmp/tecmp_interface_payload.h>
#include <asam_cmp/tecmp_lin_payload.h>
#include <asam_cmp/tecmp_payload.h>

#include "../common/lib.h"
#include "../common/views.h"

using namespace vf;

struct PacketSpec
{
    uint8_t shape{0};  // 0 default (payload-less) packet, 1 packet with a recipe payload, 2 packet with a zero-length payload,
                       // 3 packet whose payload carries an invalid type (set explicitly), 4 packet built from a message buffer
                       //   whose typed payload fails validation (the library then stores an invalid-typed, zeroed payload)
    PacketRecipe r;
    uint8_t version{1};
    uint16_t dev{0};
    uint8_t stream{0};
    uint16_t seq{0};
    uint8_t segType{0};
    void io(Ar& a)
    {
        a.num("shape", shape);
        r.io(a);
        a.num("version", version);
        a.num("dev", dev);
        a.num("stream", stream);
        a.num("seq", seq);
        a.num("segType", segType);
    }
};
struct Case
{
    uint8_t domain{0};    // 0 Packet, 1 ASAM::CMP::Payload, 2 TECMP::Payload
    uint8_t relation{0};  // target: 0 independent, 1 copy of the source, 2 copy differing only in payload type, 3 the source itself
    uint8_t op{0};        // 0 copy-construct, 1 copy-assign, 2 move-construct, 3 move-assign
    PacketSpec src;
    PacketSpec dst;
    // relation 4 only: 0 = a header field differs; 1..3 = the headers are equal and the payload bytes differ in one bit (position
    // dst.dev) / are one byte shorter / one byte longer; 4 = the payload type byte differs in one bit
    uint8_t payloadDiff{0};
    void io(Ar& a)
    {
        a.num("domain", domain);
        a.num("relation", relation);
        a.num("op", op);
        src.io(a);
        dst.io(a);
        if (a.writing || a.peekName() == "payloadDiff")
            a.num("payloadDiff", payloadDiff);
        a.optionalNum("refBefore", refBefore);
    }
    uint8_t refBefore{0};  // packet copies: 1 = the writable payload reference of the source is obtained BEFORE the copy is made and the
                           // source is later modified through that old reference (what code holding on to `auto& pl = p.getPayload()` does)
};

// bytes of an equal-looking payload: one bit flipped / last byte dropped / one byte appended
static Bytes nearlyEqualBytes(const uint8_t* data, size_t size, uint8_t how, unsigned bit)
{
    Bytes b(data, data + size);
    if (how == 1 && !b.empty())
        b[(bit / 8) % b.size()] ^= static_cast<uint8_t>(1u << (bit % 8));
    else if (how == 2 && !b.empty())
        b.pop_back();
    else
        b.push_back(how == 3 ? 0 : static_cast<uint8_t>(bit));
    return b;
}

// fills a packet in place: the set-up itself must not go through the operations under test
static void fillFromSpec(lib::Packet& p, const PacketSpec& s)
{
    if (s.shape == 1)
        p.setPayload(buildPayload(s.r));
    else if (s.shape == 2)
    {
        static const uint8_t dummy = 0;
        p.setPayload(lib::Payload(lib::PayloadType(static_cast<lib::CmpHeader::MessageType>(s.r.messageType()), s.r.payloadTypeByte()), &dummy, 0));
    }
    else if (s.shape == 3)
    {
        // payload object present, bytes present, but the type is not a valid one (message type or payload type byte 0)
        Bytes b = fillBytes(s.r.seed, 1 + s.r.len % 30);
        uint32_t t = s.r.seed % 4 == 0 ? 0x0100u : s.r.seed % 4 == 1 ? 0x0020u : s.r.seed % 4 == 2 ? 0x0001u : 0x0120u;
        p.setPayload(lib::Payload(lib::PayloadType(t), b.data(), b.size()));
        // fourth variant: the type becomes exactly 0x0000 (the library's marker for a rejected payload) in place, after the bytes
        // are there - a state a copy must reproduce like any other
        if (s.r.seed % 4 == 3)
            p.getPayload().setType(lib::PayloadType(lib::PayloadType::invalid));
    }
    else if (s.shape == 4)
    {
        // a CAN message whose data length field exceeds the payload: Packet(msgType, data, size) keeps an invalid payload
        wire::CanFields cf;
        cf.dataLength = 40;
        Bytes pl = wire::buildCan(cf, fillBytes(s.r.seed, 4));
        wire::MsgHdr mh;
        mh.timestamp = s.r.ts;
        mh.idWord = s.r.ifId;
        mh.flags = static_cast<uint8_t>(s.r.flags & ~0x4C);
        mh.payloadType = wire::kPtCan;
        mh.length = static_cast<uint16_t>(pl.size());
        Bytes msg = wire::buildMessage(mh, pl);
        lib::Packet built(lib::CmpHeader::MessageType::data, msg.data(), msg.size());
        p.setPayload(built.getPayload());
    }
    if (s.shape != 0 || s.r.seed % 2)
    {
        p.setVersion(s.version);
        p.setDeviceId(s.dev);
        p.setStreamId(s.stream);
        p.setSequenceCounter(s.seq);
        p.setTimestamp(s.r.ts);
        p.setInterfaceId(s.r.ifId);
        p.setVendorId(s.r.vendorId);
        p.setCommonFlags(s.r.flags);
        p.setSegmentType(static_cast<lib::MessageHeader::SegmentType>((s.segType & 3) << 2));
    }
}
static std::unique_ptr<lib::Packet> makePacket(const PacketSpec& s)
{
    auto p = std::make_unique<lib::Packet>();
    fillFromSpec(*p, s);
    return p;
}

static bool fieldwiseEqual(const Snap& a, const Snap& b)
{
    return a.version == b.version && a.device == b.device && a.stream == b.stream && a.seq == b.seq && a.ts == b.ts && a.ifId == b.ifId &&
           a.vendorId == b.vendorId && a.flags == b.flags && a.segType == b.segType && a.type32 == b.type32 && a.payload == b.payload;
}

static Verdict equalityLaws(const lib::Packet& a, const lib::Packet& b, const char* what)
{
    Snap sa = snap(a), sb = snap(b);
    VF_CHECK(a == a, what << ": a == a is false for " << sa.str());
    VF_CHECK(b == b, what << ": b == b is false for " << sb.str());
    VF_CHECK(!(a != a), what << ": a != a is true");
    bool ab = a == b, ba = b == a;
    VF_CHECK(ab == ba, what << ": a == b is " << ab << " but b == a is " << ba);
    VF_CHECK((a != b) == !ab, what << ": a != b is not the negation of a == b");
    if (!sa.payload.empty() && !sb.payload.empty())
        VF_CHECK(ab == fieldwiseEqual(sa, sb), what << ": a == b is " << ab << " but field-by-field comparison says " << fieldwiseEqual(sa, sb) << ": a=" << sa.str() << " b=" << sb.str());
    return Verdict::pass();
}

static Verdict runPacket(const Case& c, Info& info)
{
    auto srcPtr = makePacket(c.src);
    lib::Packet& src = *srcPtr;
    const Snap before = snap(src);
    std::unique_ptr<lib::Packet> dstPtr;
    switch (c.relation)
    {
        case 1:
            dstPtr = makePacket(c.src);
            break;
        case 2:
            dstPtr = makePacket(c.src);
            if (dstPtr->verifHasPayload())
                dstPtr->getPayload().setRawPayloadType(static_cast<uint8_t>(dstPtr->getPayloadType() ^ 0x10));
            break;
        case 3:
            break;
        case 4:
        {
            // equal-looking target: identical to the source except for exactly one header field
            dstPtr = makePacket(c.src);
            lib::Packet& d = *dstPtr;
            // exactly one bit of exactly one header field differs (bit position taken from the target spec)
            const unsigned bit = c.dst.dev;
            if (c.payloadDiff && d.verifHasPayload())
            {
                const lib::Payload& pl = d.getPayload();
                if (c.payloadDiff == 4)
                    d.getPayload().setRawPayloadType(static_cast<uint8_t>(d.getPayloadType() ^ (1u << (bit % 8))));
                else
                {
                    Bytes nb = nearlyEqualBytes(pl.getRawPayload(), pl.getLength(), c.payloadDiff, bit);
                    static const uint8_t dummy = 0;
                    d.setPayload(lib::Payload(pl.getType(), nb.empty() ? &dummy : nb.data(), nb.size()));
                }
                info.tag("equal_headers_nearly_equal_payload");
                break;
            }
            switch (c.dst.seq % 9)
            {
                case 0:
                    d.setVersion(static_cast<uint8_t>(d.getVersion() ^ (1u << (bit % 8))));
                    break;
                case 1:
                    d.setDeviceId(static_cast<uint16_t>(d.getDeviceId() ^ (1u << (bit % 16))));
                    break;
                case 2:
                    d.setStreamId(static_cast<uint8_t>(d.getStreamId() ^ (1u << (bit % 8))));
                    break;
                case 3:
                    d.setSequenceCounter(static_cast<uint16_t>(d.getSequenceCounter() ^ (1u << (bit % 16))));
                    break;
                case 4:
                    d.setTimestamp(d.getTimestamp() ^ (1ull << (bit % 64)));
                    break;
                case 5:
                    d.setInterfaceId(d.getInterfaceId() ^ (1u << (bit % 32)));
                    break;
                case 6:
                    d.setVendorId(static_cast<uint16_t>(d.getVendorId() ^ (1u << (bit % 16))));
                    break;
                case 7:
                    d.setCommonFlags(static_cast<uint8_t>(d.getCommonFlags() ^ (1u << (bit % 8))));
                    break;
                default:
                    d.setSegmentType(d.getSegmentType() == lib::MessageHeader::SegmentType::unsegmented ? lib::MessageHeader::SegmentType::lastSegment
                                                                                                        : lib::MessageHeader::SegmentType::unsegmented);
                    break;
            }
            break;
        }
        default:
            dstPtr = makePacket(c.dst);
            break;
    }
    if (dstPtr)
        VF_TRY(equalityLaws(src, *dstPtr, "before the operation"));
    else
        VF_TRY(equalityLaws(src, src, "self"));
    if (c.relation == 1)
        VF_CHECK(*dstPtr == src || before.payload.empty(), "a copy does not compare equal to its original " << before.str());

    if (c.relation == 3)
    {
        if (before.hasPayload && (c.dst.seq & 1))
        {
            // the packet is handed its own payload (through the reference it gives out): a value must survive being assigned from itself
            const lib::Payload& own = src.getPayload();
            src.setPayload(own);
            Snap afterSet = snap(src);
            VF_CHECK(afterSet == before, "setPayload with the packet's own payload changed the packet: before " << before.str() << " after " << afterSet.str());
            info.tag("set_payload_with_the_packets_own_payload");
        }
        lib::Packet& alias = src;
        if (c.op % 2 == 0 || c.op == 1)
            src = alias;  // self-assignment
        else
            src = std::move(alias);  // self-move-assignment
        Snap after = snap(src);
        VF_CHECK(after == before, "self-" << (c.op == 3 ? "move-" : "") << "assignment changed the packet: before " << before.str() << " after " << after.str());
        VF_TRY(equalityLaws(src, src, "after self-assignment"));
        info.tag(c.op == 3 ? "self_move_assign" : "self_assign");
        info.nontrivial = before.hasPayload;
        return Verdict::pass();
    }

    Snap result;
    std::unique_ptr<lib::Packet> made;
    lib::Packet* res = nullptr;
    lib::Payload* srcPayloadRef = (c.refBefore && c.op <= 1 && src.verifHasPayload()) ? &src.getPayload() : nullptr;
    switch (c.op)
    {
        case 0:
            made = std::make_unique<lib::Packet>(src);
            res = made.get();
            info.tag("copy_construct");
            break;
        case 1:
            *dstPtr = src;
            res = dstPtr.get();
            info.tag("copy_assign");
            break;
        case 2:
            made = std::make_unique<lib::Packet>(std::move(src));
            res = made.get();
            info.tag("move_construct");
            break;
        default:
            *dstPtr = std::move(src);
            res = dstPtr.get();
            info.tag("move_assign");
            break;
    }
    result = snap(*res);
    VF_CHECK(result == before, "result of the operation differs from the source: result " << result.str() << " source was " << before.str()
                                                                                           << (dstPtr && c.op % 2 ? " (independent target spec " + snap(*makePacket(c.dst)).str() + ")" : ""));
    if (c.op <= 1)
    {
        // copies share no state: mutate the copy, the source must not move; then destroy the source
        VF_CHECK(snap(src) == before, "copying changed the source");
        VF_TRY(equalityLaws(src, *res, "copy vs source"));
        Snap srcNow = before;
        if (srcPayloadRef)
        {
            // first of all, before anything else touches either object: the source is modified through the reference taken
            // before the copy existed
            srcPayloadRef->setRawPayloadType(static_cast<uint8_t>(before.rawType ^ 0x12));
            VF_CHECK(snap(*res) == before, "modifying the source through a payload reference obtained before the copy was made changed the copy: "
                                               << snap(*res).str() << " was " << before.str());
            srcNow = snap(src);
            info.tag("source_modified_through_reference_taken_before_the_copy");
        }
        res->setTimestamp(before.ts + 1);
        res->setCommonFlags(static_cast<uint8_t>(before.flags ^ 0x21));
        if (res->verifHasPayload())
            res->getPayload().setRawPayloadType(static_cast<uint8_t>(res->getPayloadType() ^ 0x01));
        VF_CHECK(snap(src) == srcNow, "mutating the copy changed the source");
        // and the other way round
        Snap copySnap = snap(*res);
        src.setDeviceId(static_cast<uint16_t>(before.device + 1));
        if (srcPayloadRef)
            srcPayloadRef->setMessageType(lib::CmpHeader::MessageType::vendor);
        else if (src.verifHasPayload())
            src.getPayload().setMessageType(lib::CmpHeader::MessageType::vendor);
        VF_CHECK(snap(*res) == copySnap, "mutating the source changed the copy");
        srcPtr.reset();
        VF_CHECK(snap(*res) == copySnap, "destroying the source changed the copy");
    }
    else
    {
        srcPtr.reset();  // moved-from state is not asserted, only that it can be destroyed
        VF_CHECK(snap(*res) == before, "destroying the moved-from source changed the result");
    }
    bool targetHadPayload = dstPtr && c.op % 2 == 1 && c.relation != 3 && (c.relation != 0 ? before.hasPayload : snap(*makePacket(c.dst)).hasPayload);
    if (targetHadPayload)
        info.tag("target_already_held_a_payload");
    if (before.hasPayload && before.payload.empty())
        info.tag("zero_length_payload_source");
    if (!before.hasPayload)
        info.tag("payload_less_source");
    if (before.hasPayload && !before.valid)
        info.tag("source_payload_has_invalid_type");
    if (c.relation == 1 || c.relation == 2 || c.relation == 4)
        info.tag("equal_looking_target");
    info.nontrivial = targetHadPayload || (before.hasPayload && before.payload.empty()) || c.relation == 1 || c.relation == 2 || c.relation == 4 || !before.hasPayload;
    return Verdict::pass();
}

template <class P>
struct PSnap
{
    uint32_t type;
    Bytes bytes;
    bool operator==(const PSnap& o) const
    {
        return type == o.type && bytes == o.bytes;
    }
};
template <class P>
static PSnap<P> psnap(const P& p)
{
    PSnap<P> s;
    s.type = p.getType().getType();
    if (p.getLength())
        s.bytes.assign(p.getRawPayload(), p.getRawPayload() + p.getLength());
    return s;
}

// typed classes: every typed accessor is an observable too.  The views a copy hands out must lie in the copy's own bytes and
// read the same as the source's did - also after the source was modified or destroyed (a cached pointer that was copied along
// would still point into the source).  -1: no typed class / the bytes do not validate, nothing is swept.
template <class P>
static Verdict typedViews(int pcCls, const P& p, uint64_t& digest, const char* when)
{
    digest = 0;
    if constexpr (std::is_base_of_v<lib::Payload, P>)
    {
        if (pcCls < 0 || !classValidates(static_cast<uint8_t>(pcCls), p.getRawPayload(), p.getLength()))
            return Verdict::pass();
        ViewStats vs;
        Verdict v = sweepAccessors(static_cast<uint8_t>(pcCls), p, vs);
        if (!v.ok)
            return Verdict::fail(std::string(when) + ": " + v.why);
        digest = vs.digest + vs.views * 1000003u;
    }
    else
        (void) when;
    return Verdict::pass();
}

template <class P>
static Verdict runPayload(const Case& c, Info& info, P srcInit, P dstInit, int pcCls = -1)
{
    auto srcPtr = std::make_unique<P>(srcInit);
    P& src = *srcPtr;
    auto before = psnap(src);
    // the accessors are called on the source (and on the target) before the operation: what they may cache is part of the state
    uint64_t viewsBefore = 0, scratch = 0;
    VF_TRY(typedViews(pcCls, src, viewsBefore, "source before the operation"));
    VF_TRY(typedViews(pcCls, dstInit, scratch, "target before the operation"));
    VF_CHECK(src == src, "payload == itself is false (type 0x" << std::hex << before.type << std::dec << ", " << before.bytes.size() << " bytes)");
    P other = c.relation == 1 ? P(src) : dstInit;
    if (c.relation == 2)
    {
        other = P(src);
        other.setRawPayloadType(static_cast<uint8_t>(other.getRawPayloadType() ^ 0x10));
    }
    if (c.relation == 4)
    {
        // equal-looking: one bit of the type byte or of a data byte differs, or the data is one byte shorter / longer
        const unsigned bit = c.dst.dev;
        if (c.payloadDiff == 0 || c.payloadDiff == 4)
        {
            other = P(src);
            other.setRawPayloadType(static_cast<uint8_t>(other.getRawPayloadType() ^ (1u << (bit % 8))));
        }
        else
        {
            Bytes nb = nearlyEqualBytes(src.getRawPayload(), src.getLength(), c.payloadDiff, bit);
            static const uint8_t dummy = 0;
            if constexpr (std::is_constructible_v<P, decltype(src.getType()), const uint8_t*, size_t>)
                other = P(src.getType(), nb.empty() ? &dummy : nb.data(), nb.size());
            else
                other = P(nb.empty() ? &dummy : nb.data(), nb.size());  // typed classes take their type from the class
        }
        info.tag("nearly_equal_payload_pair");
    }
    bool ab = src == other, ba = other == src;
    VF_CHECK(ab == ba, "payload equality is not symmetric");
    VF_CHECK(ab == (psnap(other) == before), "payload a == b is " << ab << " but type / length / bytes comparison says " << (psnap(other) == before));
    // equality over an object's life: an object that was compared, then rewritten through the class's own data setter until its bytes
    // equal the other side's, must compare equal (and the other way round) - whatever equality remembers about an object must follow
    // every way of changing it
    if constexpr (std::is_same_v<P, lib::CaptureModulePayload> || std::is_same_v<P, lib::InterfacePayload>)
    {
        if (pcCls >= 0 && classValidates(static_cast<uint8_t>(pcCls), src.getRawPayload(), src.getLength()))
        {
            P x(src);
            bool changed = false;
            static const uint8_t dummy = 0;
            if constexpr (std::is_same_v<P, lib::CaptureModulePayload>)
            {
                std::string s0(src.getDeviceDescription()), s1(src.getSerialNumber()), s2(src.getHardwareVersion()), s3(src.getSoftwareVersion());
                Bytes v(src.getVendorData() ? src.getVendorData() : &dummy, (src.getVendorData() ? src.getVendorData() : &dummy) + src.getVendorDataLength());
                std::string t1 = s1;
                Bytes w = v;
                if (!t1.empty())
                {
                    t1[0] = static_cast<char>(t1[0] == 'x' ? 'y' : 'x');
                    changed = true;
                }
                else if (!w.empty())
                {
                    w[0] ^= 0x55;
                    changed = true;
                }
                if (changed)
                {
                    x.setData(s0, t1, s2, s3, w);
                    bool e1 = x == src, e2 = src == x;
                    VF_CHECK(e1 == e2 && e1 == (psnap(x) == before), "equality of a payload rewritten through setData (other content of the same lengths) is " << e1
                                                                         << ", type / length / bytes comparison says " << (psnap(x) == before));
                    x.setData(s0, s1, s2, s3, v);
                }
            }
            else
            {
                Bytes ids(src.getStreamIds() ? src.getStreamIds() : &dummy, (src.getStreamIds() ? src.getStreamIds() : &dummy) + src.getStreamIdsCount());
                Bytes v(src.getVendorData() ? src.getVendorData() : &dummy, (src.getVendorData() ? src.getVendorData() : &dummy) + src.getVendorDataLength());
                Bytes ids2 = ids, w = v;
                if (!ids2.empty())
                {
                    ids2[0] ^= 0x55;
                    changed = true;
                }
                else if (!w.empty())
                {
                    w[0] ^= 0x55;
                    changed = true;
                }
                if (changed)
                {
                    x.setData(ids2.empty() ? &dummy : ids2.data(), static_cast<uint16_t>(ids2.size()), w.empty() ? &dummy : w.data(), static_cast<uint16_t>(w.size()));
                    bool e1 = x == src, e2 = src == x;
                    VF_CHECK(e1 == e2 && e1 == (psnap(x) == before), "equality of a payload rewritten through setData (other content of the same lengths) is " << e1
                                                                         << ", type / length / bytes comparison says " << (psnap(x) == before));
                    x.setData(ids.empty() ? &dummy : ids.data(), static_cast<uint16_t>(ids.size()), v.empty() ? &dummy : v.data(), static_cast<uint16_t>(v.size()));
                }
            }
            if (changed)
            {
                bool e1 = x == src, e2 = src == x;
                VF_CHECK(e1 == e2 && e1 == (psnap(x) == before), "after a compared payload was rewritten through setData to the content of the other side, equality is "
                                                                     << e1 << ", type / length / bytes comparison says " << (psnap(x) == before));
                info.tag("compared_then_rewritten_through_setData_then_compared");
            }
        }
    }
    std::unique_ptr<P> made;
    P* res = nullptr;
    switch (c.op)
    {
        case 0:
            made = std::make_unique<P>(src);
            res = made.get();
            break;
        case 1:
            other = src;
            res = &other;
            break;
        case 2:
            made = std::make_unique<P>(std::move(src));
            res = made.get();
            break;
        default:
            other = std::move(src);
            res = &other;
            break;
    }
    VF_CHECK(psnap(*res) == before, "payload copy / move / assignment result differs from the source");
    uint64_t viewsAfter = 0;
    VF_TRY(typedViews(pcCls, *res, viewsAfter, "result of the operation"));
    VF_CHECK(viewsAfter == viewsBefore, "the typed accessors of the result read differently from the source's");
    if (c.op <= 1)
    {
        VF_CHECK(psnap(src) == before, "copying a payload changed the source");
        VF_CHECK(*res == src && src == *res, "a payload copy does not compare equal to its original");
        res->setRawPayloadType(static_cast<uint8_t>(res->getRawPayloadType() ^ 1));
        VF_CHECK(psnap(src) == before, "mutating a payload copy changed the source");
        res->setRawPayloadType(static_cast<uint8_t>(res->getRawPayloadType() ^ 1));
        auto copySnap = psnap(*res);
        // the source takes other content of another size, then goes away: the copy must not notice
        if (src.getLength() > 0)
            src = dstInit;
        VF_TRY(typedViews(pcCls, *res, viewsAfter, "copy after the source was overwritten"));
        VF_CHECK(viewsAfter == viewsBefore, "overwriting the source changed what the typed accessors of the copy read");
        srcPtr.reset();
        VF_CHECK(psnap(*res) == copySnap, "destroying the source changed the payload copy");
        VF_TRY(typedViews(pcCls, *res, viewsAfter, "copy after the source was destroyed"));
        VF_CHECK(viewsAfter == viewsBefore, "destroying the source changed what the typed accessors of the copy read");
    }
    else
    {
        srcPtr.reset();
        VF_CHECK(psnap(*res) == before, "destroying the moved-from payload changed the result");
        VF_TRY(typedViews(pcCls, *res, viewsAfter, "result after the moved-from source was destroyed"));
        VF_CHECK(viewsAfter == viewsBefore, "destroying the moved-from source changed what the typed accessors of the result read");
    }
    info.tag(c.domain == 1 ? "asam_payload" : c.domain == 2 ? "tecmp_payload" : c.domain == 3 ? "asam_typed_payload_class" : "tecmp_typed_payload_class");
    info.nontrivial = true;
    return Verdict::pass();
}

static lib::Payload makeAsamPayload(const PacketSpec& s)
{
    static const uint8_t dummy = 0;
    if (s.shape >= 3)
    {
        Bytes b = fillBytes(s.r.seed, 1 + s.r.len % 30);
        if (s.r.seed % 3 == 2)
        {
            // bytes first, then the type is set to exactly 0x0000 in place
            lib::Payload pl(lib::PayloadType(0x0120u), b.data(), b.size());
            pl.setMessageType(lib::CmpHeader::MessageType::undefined);
            pl.setRawPayloadType(0);
            return pl;
        }
        return lib::Payload(lib::PayloadType(s.shape == 3 ? 0x0100u : 0x0020u), b.data(), b.size());
    }
    if (s.shape != 1)
        return lib::Payload(lib::PayloadType(static_cast<lib::CmpHeader::MessageType>(s.r.messageType()), s.r.payloadTypeByte()), &dummy, 0);
    return buildPayload(s.r);
}
static TECMP::Payload makeTecmpPayload(const PacketSpec& s)
{
    static const uint8_t dummy = 0;
    uint32_t type = (s.r.seed % 3 == 0) ? TECMP::PayloadType::can : (s.r.seed % 3 == 1) ? TECMP::PayloadType::lin : TECMP::PayloadType::cmStatMsg;
    if (s.shape != 1)
        return TECMP::Payload(TECMP::PayloadType(type), &dummy, 0);
    Bytes b = fillBytes(s.r.seed, 1 + s.r.len % 40);
    return TECMP::Payload(TECMP::PayloadType(type), b.data(), b.size());
}

// typed payload classes: objects of the class itself (not sliced to the base), source and target of the same class
template <class P>
static P makeTyped(uint8_t kind, const PacketSpec& s)
{
    PacketRecipe r = s.r;
    r.kind = kind;
    r.len = std::min<uint32_t>(r.len, PacketRecipe::maxLen(kind));
    Bytes b = oracleBytes(r, deriveFields(r));
    if (s.shape == 2)
        b.resize(PacketRecipe::headerSize(kind));  // nothing behind the fixed header
    return P(b.data(), b.size());
}
template <class P>
static P makeTecmpTyped(size_t header, const PacketSpec& s)
{
    Bytes b = fillBytes(s.r.seed, header + (s.shape == 2 ? 0 : s.r.len % 40));
    return P(b.data(), b.size());
}

static Verdict runCase(const Case& c, Info& info)
{
    if (c.domain == 0)
        return runPacket(c, info);
    if (c.domain == 1)
        return runPayload<lib::Payload>(c, info, makeAsamPayload(c.src), makeAsamPayload(c.dst));
    if (c.domain == 3)
    {
        switch (c.src.r.kind % 7)
        {
            case 0:
                return runPayload<lib::CanPayload>(c, info, makeTyped<lib::CanPayload>(rkCan, c.src), makeTyped<lib::CanPayload>(rkCan, c.dst), pcCan);
            case 1:
                return runPayload<lib::CanFdPayload>(c, info, makeTyped<lib::CanFdPayload>(rkCanFd, c.src), makeTyped<lib::CanFdPayload>(rkCanFd, c.dst), pcCanFd);
            case 2:
                return runPayload<lib::LinPayload>(c, info, makeTyped<lib::LinPayload>(rkLin, c.src), makeTyped<lib::LinPayload>(rkLin, c.dst), pcLin);
            case 3:
                return runPayload<lib::EthernetPayload>(c, info, makeTyped<lib::EthernetPayload>(rkEthernet, c.src), makeTyped<lib::EthernetPayload>(rkEthernet, c.dst), pcEthernet);
            case 4:
                return runPayload<lib::AnalogPayload>(c, info, makeTyped<lib::AnalogPayload>(rkAnalog, c.src), makeTyped<lib::AnalogPayload>(rkAnalog, c.dst), pcAnalog);
            case 5:
                return runPayload<lib::CaptureModulePayload>(c, info, makeTyped<lib::CaptureModulePayload>(rkCmStatus, c.src),
                                                             makeTyped<lib::CaptureModulePayload>(rkCmStatus, c.dst), pcCm);
            default:
                return runPayload<lib::InterfacePayload>(c, info, makeTyped<lib::InterfacePayload>(rkIfStatus, c.src), makeTyped<lib::InterfacePayload>(rkIfStatus, c.dst), pcIf);
        }
    }
    if (c.domain == 4)
    {
        switch (c.src.r.kind % 4)
        {
            case 0:
                return runPayload<TECMP::CanPayload>(c, info, makeTecmpTyped<TECMP::CanPayload>(5, c.src), makeTecmpTyped<TECMP::CanPayload>(5, c.dst));
            case 1:
                return runPayload<TECMP::LinPayload>(c, info, makeTecmpTyped<TECMP::LinPayload>(2, c.src), makeTecmpTyped<TECMP::LinPayload>(2, c.dst));
            case 2:
                return runPayload<TECMP::CaptureModulePayload>(c, info, makeTecmpTyped<TECMP::CaptureModulePayload>(36, c.src),
                                                               makeTecmpTyped<TECMP::CaptureModulePayload>(36, c.dst));
            default:
                return runPayload<TECMP::InterfacePayload>(c, info, makeTecmpTyped<TECMP::InterfacePayload>(28, c.src),
                                                           makeTecmpTyped<TECMP::InterfacePayload>(28, c.dst));
        }
    }
    return runPayload<TECMP::Payload>(c, info, makeTecmpPayload(c.src), makeTecmpPayload(c.dst));
}

static rc::Gen<PacketSpec> genSpec()
{
    return rc::gen::exec([]() {
        PacketSpec s;
        s.shape = *rc::gen::weightedElement<uint8_t>({{1, 0}, {5, 1}, {2, 2}, {2, 3}, {1, 4}});
        s.r.kind = *range<uint8_t>(0, 7);
        s.r.msgType = *rc::gen::element<uint8_t>(1, 2, 3, 0xFF);
        s.r.ptype = *rc::gen::element<uint8_t>(0x20, 0x21, 0xFF);
        s.r.len = *rc::gen::weightedOneOf<uint32_t>({{4, range<uint32_t>(0, 12)}, {1, range<uint32_t>(0, 200)}});
        if (s.r.kind == rkGeneric && s.r.len == 0)
            s.r.len = 1;
        s.r.seed = *rc::gen::weightedOneOf<uint32_t>({{1, rc::gen::element<uint32_t>(0, 1, 2)}, {2, rc::gen::arbitrary<uint32_t>()}});
        s.r.ts = *rc::gen::element<uint64_t>(0, 1, 0xFFFFFFFFFFFFFFFFull);
        s.r.ifId = *rc::gen::element<uint32_t>(0, 7);
        s.r.vendorId = *rc::gen::element<uint16_t>(0, 9);
        s.r.flags = *rc::gen::element<uint8_t>(0, 0x23);
        s.r.viaApi = *range<uint8_t>(0, 1);
        s.version = *rc::gen::element<uint8_t>(1, 2);
        s.dev = *rc::gen::element<uint16_t>(0, 3);
        s.stream = *rc::gen::element<uint8_t>(0, 4);
        s.seq = *rc::gen::element<uint16_t>(0, 5);
        s.segType = *rc::gen::element<uint8_t>(0, 0, 1, 3);
        return s;
    });
}

static rc::Gen<Case> genCase(int)
{
    return rc::gen::exec([]() {
        Case c;
        c.domain = *rc::gen::weightedElement<uint8_t>({{6, 0}, {2, 1}, {2, 2}, {3, 3}, {2, 4}});
        c.relation = *rc::gen::weightedElement<uint8_t>({{5, 0}, {2, 1}, {2, 2}, {2, 3}, {4, 4}});
        c.op = *range<uint8_t>(0, 3);
        c.src = *genSpec();
        c.dst = *genSpec();
        c.refBefore = *range<uint8_t>(0, 1);
        if (c.relation == 4)
        {
            c.dst.seq = *range<uint16_t>(0, 8);   // which field differs
            c.dst.dev = *range<uint16_t>(0, 63);  // which bit of it
            c.payloadDiff = *rc::gen::weightedElement<uint8_t>({{4, 0}, {3, 1}, {1, 2}, {1, 3}, {1, 4}});
            if (c.payloadDiff == 1)
                c.dst.dev = *range<uint16_t>(0, 2047);  // which bit of the data
        }
        // equal-looking pairs of different payload types / both zero-length are the interesting region
        if (*range<int>(0, 3) == 0)
        {
            c.dst = c.src;
            c.dst.r.kind = *range<uint8_t>(0, 7);
            c.dst.shape = *rc::gen::element<uint8_t>(0, 1, 2, 2, 3);
            if (*range<int>(0, 1))
                c.src.shape = 2;
        }
        return c;
    });
}

static void enumerate(int, const std::function<bool(const Case&)>& emit)
{
    // equal-looking pairs: every header field x every bit position, packets with a non-empty payload
    for (uint16_t field = 0; field < 9; ++field)
        for (uint16_t bit = 0; bit < 64; ++bit)
            for (uint8_t op = 0; op < 4; ++op)
            {
                Case c;
                c.domain = 0;
                c.relation = 4;
                c.op = op;
                c.src.shape = 1;
                c.src.r.kind = rkCan;
                c.src.r.len = 4;
                c.src.r.seed = 9;
                c.src.r.ts = 0x0123456789ABCDEFull;
                c.src.r.ifId = 0x89ABCDEF;
                c.src.r.vendorId = 0x4567;
                c.src.dev = 0x1234;
                c.src.stream = 0x56;
                c.src.seq = 0x789A;
                c.dst = c.src;
                c.dst.seq = field;
                c.dst.dev = bit;
                if (!emit(c))
                    return;
            }
    // all shape pairs x relations x operations for a small set of payload kinds
    for (uint8_t domain = 0; domain < 3; ++domain)
        for (uint8_t srcShape = 0; srcShape < 5; ++srcShape)
            for (uint8_t dstShape = 0; dstShape < 5; ++dstShape)
                for (uint8_t relation = 0; relation < 5; ++relation)
                    for (uint8_t op = 0; op < 4; ++op)
                        for (uint8_t srcKind : {uint8_t(rkCan), uint8_t(rkLin), uint8_t(rkGeneric), uint8_t(rkCmStatus)})
                            for (uint8_t dstKind : {uint8_t(rkCan), uint8_t(rkEthernet)})
                                for (uint8_t sameHeader = 0; sameHeader < 2; ++sameHeader)
                                {
                                    Case c;
                                    c.domain = domain;
                                    c.relation = relation;
                                    c.op = op;
                                    c.src.shape = srcShape;
                                    c.src.r.kind = srcKind;
                                    c.src.r.len = 3;
                                    c.src.r.seed = 5;
                                    c.src.r.ts = 77;
                                    c.src.dev = 2;
                                    c.src.r.vendorId = 9;
                                    c.src.r.ifId = 7;
                                    c.src.stream = 4;
                                    c.src.seq = 5;
                                    c.dst = c.src;
                                    c.dst.shape = dstShape;
                                    c.dst.r.kind = dstKind;
                                    if (!sameHeader)
                                    {
                                        c.dst.r.ts = 78;
                                        c.dst.r.seed = 6;
                                    }
                                    c.dst.seq = static_cast<uint16_t>(srcKind + dstKind + op + srcShape * 3 + sameHeader * 4);
                                    if (!emit(c))
                                        return;
                                }
}

int main(int argc, char** argv)
{
    Property<Case> prop;
    prop.id = "C14";
    prop.gen = genCase;
    prop.run = runCase;
    prop.enumerate = enumerate;
    prop.enumerationIsExhaustive = true;
    prop.enumerationNote = "all combinations of {Packet, ASAM payload, TECMP payload} x source shape {payload-less, with payload, zero-length payload, invalid-typed payload, payload rejected by validation} x "
                           "target shape x relation {independent, copy, copy with another payload type, self, copy with one header field changed} x {copy-construct, copy-assign, "
                           "move-construct, move-assign} x 4 source kinds x 2 target kinds x same / different header fields";
    return pbtMain(argc, argv, prop);
}
