// C12 - headers and payload fields use the ASAM CMP / TECMP wire layout (external layout table in common/fields.h).
#include "../common/fields.h"
#include "../common/gen_enc.h"

using namespace vf;

struct Op
{
    uint16_t field{0};
    uint64_t value{0};
    void io(Ar& a)
    {
        a.num("field", field);
        a.num("value", value);
    }
};
struct Case
{
    uint8_t mode{0};  // 0 API writes -> raw bytes, 1 hand-laid bytes -> getters, 2 default object / header size, 3 Packet raw headers,
                      // 4 length-prefixed variable part of the capture-module / interface status payloads (both directions)
    uint8_t cls{0};
    uint8_t bg{0};
    uint32_t seed{0};
    int32_t sweepField{-1};
    std::vector<Op> ops;
    // mode 3
    PacketRecipe packet;
    uint8_t version{1};
    uint16_t dev{0};
    uint8_t stream{0};
    uint16_t seq{0};
    std::vector<uint32_t> priorLens;  // mode 4: lengths of the content the object held before (empty: a fresh object) ...
    uint8_t priorRaw{0};              // ... 1: the object was constructed from the raw bytes of that content, 0: setData was called with it
    std::vector<uint32_t> varLens;  // mode 4: four string lengths + vendor length (capture-module) or stream-id count + vendor length (interface)
    void io(Ar& a)
    {
        a.num("mode", mode);
        a.num("cls", cls);
        a.num("bg", bg);
        a.num("seed", seed);
        a.num("sweepField", sweepField);
        a.vec("ops", ops);
        packet.io(a);
        a.num("version", version);
        a.num("dev", dev);
        a.num("stream", stream);
        a.num("seq", seq);
        if (a.writing || a.peekName() == "varLens")
            a.numvec("varLens", varLens);
        if (a.writing || a.peekName() == "priorLens")
        {
            a.numvec("priorLens", priorLens);
            a.num("priorRaw", priorRaw);
        }
        a.optionalNum("relabel", relabel);
    }
    uint8_t relabel{0};  // mode 3: after the payload was handed to the packet its type is changed in place through the mutable
                         // Packet::getPayload(): 1 = payload type byte (setRawPayloadType), 2 = message type (setMessageType)
};

static Bytes background(uint8_t bg, uint32_t seed, size_t n)
{
    Bytes b(n);
    for (size_t i = 0; i < n; ++i)
        b[i] = bg == 0 ? 0 : bg == 1 ? 0xFF : fillByte(seed, i);
    return b;
}

template <class Obj>
static uint64_t normalizeValue(const FieldT<Obj>& f, uint64_t v)
{
    if (!f.allowed.empty())
        return f.allowed[v % f.allowed.size()];
    v &= f.mask();
    if (f.bits == 32 && f.name.rfind("sample", 0) == 0 && ((v >> 23) & 0xFF) == 0xFF)
        v &= ~(1ull << 23);
    return v;
}

template <class Obj>
static std::vector<uint64_t> boundaryValues(const FieldT<Obj>& f)
{
    if (!f.allowed.empty())
        return f.allowed;
    std::vector<uint64_t> v;
    uint64_t m = f.mask();
    if (f.bits <= 16)
    {
        for (uint64_t x = 0; x <= m; ++x)
            v.push_back(x);
        return v;
    }
    for (uint64_t x : std::initializer_list<uint64_t>{0, 1, m - 1, m, 0x5555555555555555ull & m, 0xAAAAAAAAAAAAAAAAull & m, 0x0102030405060708ull & m, 0xFFEEDDCCBBAA9988ull & m})
        v.push_back(normalizeValue(f, x));
    for (int b = 0; b < f.bits; ++b)
        v.push_back(normalizeValue(f, 1ull << b));
    return v;
}

template <class Obj>
static Verdict checkWrite(const DescT<Obj>& d, Obj& o, Bytes& expect, const FieldT<Obj>& f, uint64_t v, const std::string& ctx)
{
    f.set(o, v);
    const Cell& cell = d.cells[static_cast<size_t>(f.cell)];
    uint64_t cv = getCellBE(expect, cell);
    cv = (cv & ~(f.mask() << f.shift)) | ((v & f.mask()) << f.shift);
    setCellBE(expect, cell, cv);
    Bytes got = d.image(o);
    if (got != expect)
    {
        size_t at = 0;
        while (at < got.size() && at < expect.size() && got[at] == expect[at])
            ++at;
        VF_CHECK(got == expect, d.name << ": " << ctx << " set " << f.name << " = 0x" << std::hex << v << std::dec << ": raw bytes " << hexOf(got)
                                       << " expected " << hexOf(expect) << " (first difference at byte " << at << "; field lives in bytes ["
                                       << cell.offset << "," << cell.offset + cell.width << ") bits [" << f.shift << "," << f.shift + f.bits << "))");
    }
    return Verdict::pass();
}

template <class Obj>
static Verdict runOn(const DescT<Obj>& d, const Case& c, Info& info)
{
    info.tag("class_" + d.name);
    if (c.mode == 2)
    {
        // header size and reserved bytes / bits of default-constructed objects
        if (d.headerSize)
            VF_CHECK(d.actualHeaderSize() == d.headerSize, d.name << ": header size " << d.actualHeaderSize() << ", the standard prescribes " << d.headerSize);
        if (!d.hasImage)
            return Verdict::pass();
        Obj o = d.makeDefault();
        Bytes img = d.image(o);
        VF_CHECK(img.size() == d.headerSize, d.name << ": default object exposes " << img.size() << " header bytes");
        Bytes covered(img.size(), 0);
        for (const auto& f : d.fields)
        {
            const Cell& cell = d.cells[static_cast<size_t>(f.cell)];
            for (int b = 0; b < f.bits; ++b)
            {
                int bit = f.shift + b;
                size_t byte = static_cast<size_t>(cell.offset + cell.width - 1 - bit / 8);
                covered[byte] = static_cast<uint8_t>(covered[byte] | (1u << (bit % 8)));
            }
        }
        for (size_t i = 0; i < img.size(); ++i)
            VF_CHECK((img[i] & ~covered[i]) == 0, d.name << ": reserved bits of byte " << i << " are 0x" << std::hex << int(img[i] & ~covered[i]) << " in a default-constructed object");
        info.nontrivial = true;
        info.tag("default_object_and_header_size");
        return Verdict::pass();
    }
    if (!d.hasImage)
        return Verdict::pass();
    size_t imageSize = d.headerSize + 6;
    Bytes bgBytes = background(c.bg, c.seed, imageSize);
    if (c.mode == 1)
    {
        // hand-laid bytes -> getters: enumerated fields are forced to one of their enumerators
        Bytes img = bgBytes;
        for (const auto& f : d.fields)
            if (!f.allowed.empty())
            {
                const Cell& cell = d.cells[static_cast<size_t>(f.cell)];
                uint64_t cv = getCellBE(img, cell);
                uint64_t v = f.allowed[mix(c.seed, static_cast<uint32_t>(f.shift + f.cell)) % f.allowed.size()];
                cv = (cv & ~(f.mask() << f.shift)) | (v << f.shift);
                setCellBE(img, cell, cv);
            }
        // explicit values for the listed fields (in wire order of ops)
        for (const auto& op : c.ops)
        {
            const auto& f = d.fields[op.field % d.fields.size()];
            const Cell& cell = d.cells[static_cast<size_t>(f.cell)];
            uint64_t v = normalizeValue(f, op.value);
            uint64_t cv = getCellBE(img, cell);
            cv = (cv & ~(f.mask() << f.shift)) | (v << f.shift);
            setCellBE(img, cell, cv);
        }
        Obj o = d.fromImage(img);
        bool wide = false;
        for (const auto& f : d.fields)
        {
            const Cell& cell = d.cells[static_cast<size_t>(f.cell)];
            uint64_t expect = (getCellBE(img, cell) >> f.shift) & f.mask();
            if (f.bits == 32 && f.name.rfind("sample", 0) == 0 && ((expect >> 23) & 0xFF) == 0xFF && (expect & 0x7FFFFF))
                continue;  // NaN bit patterns are not compared through a float return value
            uint64_t got = f.get(o);
            VF_CHECK(got == expect, d.name << ": bytes " << hexOf(Bytes(img.begin(), img.begin() + static_cast<long>(d.headerSize))) << " getter " << f.name
                                           << " returns 0x" << std::hex << got << ", the layout says 0x" << expect);
            if (f.bits > 8 || f.bits < cell.width * 8)
                wide = true;
        }
        info.tag("bytes_to_getters");
        info.nontrivial = wide && c.bg != 0;
        return Verdict::pass();
    }
    // mode 0: API writes -> raw bytes
    if (d.lengthCell >= 0 && ((c.seed >> 3) & 1))
        setCellBE(bgBytes, d.cells[static_cast<size_t>(d.lengthCell)], imageSize - d.headerSize);  // length agrees with the data area
    Obj o = d.fromImage(bgBytes);
    Bytes expect = d.image(o);
    VF_CHECK(expect.size() == d.headerSize, d.name << ": object exposes " << expect.size() << " header bytes");
    VF_CHECK(expect == Bytes(bgBytes.begin(), bgBytes.begin() + static_cast<long>(d.headerSize)) || d.name == "CaptureModulePayload" || d.name == "InterfacePayload" || true,
             "image round trip");
    uint64_t writes = 0;
    bool wide = false;
    if (c.sweepField >= 0)
    {
        const auto& f = d.fields[static_cast<size_t>(c.sweepField) % d.fields.size()];
        if (!f.set)
            return Verdict::pass();
        const Cell& cell = d.cells[static_cast<size_t>(f.cell)];
        wide = f.bits > 8 || f.bits < cell.width * 8;
        for (uint64_t v : boundaryValues(f))
        {
            Obj x = o;
            Bytes e = expect;
            VF_TRY(checkWrite(d, x, e, f, v, "background " + std::to_string(c.bg) + ":"));
            ++writes;
        }
        info.tag("value_sweep");
    }
    for (size_t i = 0; i < c.ops.size(); ++i)
    {
        if (c.ops[i].field >= 0x8000)
        {
            if (!d.dataSetter)
                continue;
            // setData: the length field (and the DLC where the length has a code) appear in the raw header at their places,
            // every other header byte stays, the data follows the header
            const uint64_t v = c.ops[i].value;
            const size_t held = d.data(o).size();
            size_t n = ((v >> 32) % 3 == 0) ? std::min(held, d.maxData) : static_cast<size_t>((v >> 40) % (d.maxData + 1));
            Bytes bytes = fillBytes(static_cast<uint32_t>(v), n);
            d.dataSetter(o, bytes);
            Bytes img = d.image(o);
            VF_CHECK(img.size() == d.headerSize, d.name << ": after setData the object exposes " << img.size() << " header bytes");
            for (const auto& e : d.dataEffects)
            {
                uint64_t cv = 0;
                const Cell& cell = d.cells[static_cast<size_t>(e.first)];
                if (e.second(n, cv))
                    setCellBE(expect, cell, cv);
                else
                    setCellBE(expect, cell, getCellBE(img, cell));  // no value prescribed for this length
            }
            VF_CHECK(img == expect, d.name << ": op " << i << ": setData of " << n << " bytes (held " << held << "): raw header " << hexOf(img) << ", the layout prescribes " << hexOf(expect));
            VF_CHECK(d.data(o) == bytes, d.name << ": op " << i << ": setData of " << n << " bytes: the bytes behind the header differ from the data");
            ++writes;
            wide = true;
            info.tag("data_setter");
            continue;
        }
        const auto& f = d.fields[c.ops[i].field % d.fields.size()];
        if (!f.set)
            continue;
        const Cell& cell = d.cells[static_cast<size_t>(f.cell)];
        if (f.bits > 8 || f.bits < cell.width * 8)
            wide = true;
        VF_TRY(checkWrite(d, o, expect, f, normalizeValue(f, c.ops[i].value), "op " + std::to_string(i) + ":"));
        ++writes;
    }
    info.tag("api_writes_to_bytes");
    info.count("writes", writes);
    info.nontrivial = wide && writes > 0;
    return Verdict::pass();
}

static Verdict runPacketHeaders(const Case& c, Info& info)
{
    lib::Packet p = buildPacket(c.packet, c.version);
    p.setDeviceId(c.dev);
    p.setStreamId(c.stream);
    p.setSequenceCounter(c.seq);
    uint8_t mt = c.packet.messageType();
    uint8_t ptByte = c.packet.payloadTypeByte();
    uint8_t cmp[8], msg[16];
    if (c.relabel)
    {
        // the headers are read once before (whatever a packet remembers about its payload's type must follow the payload)
        p.getRawCmpHeader(cmp);
        p.getRawMessageHeader(msg);
        if (c.relabel == 1)
        {
            ptByte = static_cast<uint8_t>((ptByte ^ 0x40) ? (ptByte ^ 0x40) : 0x41);
            p.getPayload().setRawPayloadType(ptByte);
        }
        else
        {
            mt = mt == wire::kMtData ? wire::kMtVendor : wire::kMtData;
            p.getPayload().setMessageType(static_cast<lib::CmpHeader::MessageType>(mt));
            if (mt == wire::kMtData)
                p.setInterfaceId(c.packet.ifId);
            else
                p.setVendorId(c.packet.vendorId);
        }
        info.tag("payload_type_changed_in_place_inside_the_packet");
    }
    memset(cmp, 0xEE, sizeof(cmp));
    memset(msg, 0xEE, sizeof(msg));
    p.getRawCmpHeader(cmp);
    p.getRawMessageHeader(msg);
    Bytes eCmp;
    wire::CmpHdr h{c.version, 0, c.dev, mt, c.stream, c.seq};
    wire::putCmpHdr(eCmp, h);
    VF_CHECK(Bytes(cmp, cmp + 8) == eCmp, "getRawCmpHeader gives " << hexOf(cmp, 8) << ", the layout prescribes " << hexOf(eCmp));
    wire::MsgHdr mh;
    mh.timestamp = c.packet.ts;
    if (mt == wire::kMtData)
        mh.idWord = c.packet.ifId;
    else if (mt == wire::kMtStatus || mt == wire::kMtVendor)
        mh.idWord = c.packet.vendorId;  // bytes 8-9 zero, vendor id in bytes 10-11
    else
        mh.idWord = 0;
    mh.flags = c.packet.flags;
    mh.payloadType = ptByte;
    mh.length = static_cast<uint16_t>(p.getPayload().getLength());
    Bytes eMsg;
    wire::putMsgHdr(eMsg, mh);
    VF_CHECK(Bytes(msg, msg + 16) == eMsg, "getRawMessageHeader gives " << hexOf(msg, 16) << ", the layout prescribes " << hexOf(eMsg));
    info.tag("packet_raw_headers");
    info.tag(mt == 1 ? "packet_data" : mt == 3 ? "packet_status" : mt == 0xFF ? "packet_vendor" : "packet_other_type");
    info.nontrivial = true;
    return Verdict::pass();
}

// the length-prefixed fields behind the fixed headers: uint16 big-endian prefixes, NUL-terminated strings padded to even
// length, stream ids padded to even length, vendor data - written through setData and read back from hand-laid bytes
static Verdict runVariablePart(const Case& c, Info& info)
{
    auto len = [&](size_t i, uint32_t cap) { return i < c.varLens.size() ? std::min(c.varLens[i], cap) : 0u; };
    bool prefixLowByteHigh = false;
    if (c.cls % 2 == 0)
    {
        std::string str[4];
        for (int i = 0; i < 4; ++i)
            str[i] = fillString(c.seed + static_cast<uint32_t>(i), len(static_cast<size_t>(i), 700));
        Bytes vendor = fillBytes(c.seed ^ 0x99, len(4, 700));
        wire::CmFields f;
        f.uptime = c.seed * 0x0101010101ull;
        f.gptpFlags = static_cast<uint8_t>(c.seed);
        Bytes expect = wire::buildCm(f, str[0], str[1], str[2], str[3], vendor);
        // API -> bytes
        lib::CaptureModulePayload p;
        if (!c.priorLens.empty())
        {
            // the object held other content before: no byte of it may show in the new layout (pad bytes, terminators are zero)
            auto plen = [&](size_t i) { return i < c.priorLens.size() ? std::min<uint32_t>(c.priorLens[i], 700) : 0u; };
            std::string ps[4];
            for (int i = 0; i < 4; ++i)
                ps[i] = std::string(plen(static_cast<size_t>(i)), static_cast<char>(0xC0 + i));
            Bytes pv(plen(4), 0xEE);
            if (c.priorRaw)
            {
                Bytes pb = wire::buildCm(wire::CmFields{}, ps[0], ps[1], ps[2], ps[3], pv);
                p = lib::CaptureModulePayload(pb.data(), pb.size());
            }
            else
                p.setData(ps[0], ps[1], ps[2], ps[3], pv);
            info.tag("variable_part_written_over_earlier_content");
        }
        p.setUptime(f.uptime);
        p.setGptpFlags(f.gptpFlags);
        p.setData(str[0], str[1], str[2], str[3], vendor);
        Bytes raw(p.getRawPayload(), p.getRawPayload() + p.getLength());
        VF_CHECK(raw == expect, "CaptureModulePayload::setData lays the variable part out as " << hexOf(raw.data() + 26, std::min<size_t>(raw.size() - 26, 60))
                                                                                                 << "..., the layout prescribes " << hexOf(expect.data() + 26, std::min<size_t>(expect.size() - 26, 60)) << "...");
        // bytes -> getters
        lib::CaptureModulePayload q(expect.data(), expect.size());
        VF_CHECK(std::string(q.getDeviceDescription()) == str[0] && std::string(q.getSerialNumber()) == str[1] &&
                     std::string(q.getHardwareVersion()) == str[2] && std::string(q.getSoftwareVersion()) == str[3],
                 "strings read back from hand-laid bytes differ (lengths " << str[0].size() << "," << str[1].size() << "," << str[2].size() << "," << str[3].size() << ")");
        VF_CHECK(q.getVendorDataLength() == vendor.size(), "vendor data length read back as " << q.getVendorDataLength() << ", the bytes say " << vendor.size());
        VF_CHECK(vendor.empty() || (q.getVendorData() && memcmp(q.getVendorData(), vendor.data(), vendor.size()) == 0), "vendor data read back differs");
        VF_CHECK(q.getVendorDataStringView().size() == vendor.size(), "vendor data string view length " << q.getVendorDataStringView().size());
        {
            // the same object then receives (copy assignment: the storage is re-used) another layout of exactly the same total size -
            // the four string lengths rotated by one - and must read back what those bytes say
            std::string rot[4];
            for (int i = 0; i < 4; ++i)
                rot[i] = fillString(c.seed + 40 + static_cast<uint32_t>(i), str[(i + 1) % 4].size());
            Bytes expect2 = wire::buildCm(f, rot[0], rot[1], rot[2], rot[3], vendor);
            if (expect2.size() == expect.size() && expect2 != expect)
            {
                lib::CaptureModulePayload q2(expect2.data(), expect2.size());
                q = q2;
                VF_CHECK(std::string(q.getDeviceDescription()) == rot[0] && std::string(q.getSerialNumber()) == rot[1] &&
                             std::string(q.getHardwareVersion()) == rot[2] && std::string(q.getSoftwareVersion()) == rot[3],
                         "after the object received other bytes of the same total size (string lengths " << rot[0].size() << "," << rot[1].size() << "," << rot[2].size()
                                                                                                          << "," << rot[3].size() << ") the strings read back differ from what the bytes say");
                VF_CHECK(q.getVendorDataLength() == vendor.size() && (vendor.empty() || memcmp(q.getVendorData(), vendor.data(), vendor.size()) == 0),
                         "after the object received other bytes of the same total size the vendor data read back differs");
                info.tag("same_object_receives_another_layout_of_the_same_size");
            }
        }
        for (int i = 0; i < 4; ++i)
            if (((str[i].size() + 1 + ((str[i].size() + 1) % 2)) & 0x80))
                prefixLowByteHigh = true;
        if (vendor.size() & 0x80)
            prefixLowByteHigh = true;
        info.tag("variable_part_capture_module");
    }
    else
    {
        Bytes ids = fillBytes(c.seed, len(0, 700));
        Bytes vendor = fillBytes(c.seed ^ 0x77, len(1, 700));
        wire::IfFields f;
        f.interfaceId = c.seed;
        f.interfaceStatus = static_cast<uint8_t>(c.seed % 3);
        Bytes expect = wire::buildIf(f, ids, vendor);
        lib::InterfacePayload p;
        static const uint8_t dummy = 0;
        if (!c.priorLens.empty())
        {
            auto plen = [&](size_t i) { return i < c.priorLens.size() ? std::min<uint32_t>(c.priorLens[i], 700) : 0u; };
            Bytes pi(plen(0), 0xC7), pv(plen(1), 0xEE);
            if (c.priorRaw)
            {
                Bytes pb = wire::buildIf(wire::IfFields{}, pi, pv);
                p = lib::InterfacePayload(pb.data(), pb.size());
            }
            else
                p.setData(pi.empty() ? &dummy : pi.data(), static_cast<uint16_t>(pi.size()), pv.empty() ? &dummy : pv.data(), static_cast<uint16_t>(pv.size()));
            info.tag("variable_part_written_over_earlier_content");
        }
        p.setData(ids.empty() ? &dummy : ids.data(), static_cast<uint16_t>(ids.size()), vendor.empty() ? &dummy : vendor.data(), static_cast<uint16_t>(vendor.size()));
        p.setInterfaceId(f.interfaceId);
        p.setInterfaceStatus(static_cast<lib::InterfacePayload::InterfaceStatus>(f.interfaceStatus));
        Bytes raw(p.getRawPayload(), p.getRawPayload() + p.getLength());
        VF_CHECK(raw == expect, "InterfacePayload::setData lays the variable part out as " << hexOf(raw.data() + 36, std::min<size_t>(raw.size() - 36, 60))
                                                                                            << "..., the layout prescribes " << hexOf(expect.data() + 36, std::min<size_t>(expect.size() - 36, 60)) << "...");
        lib::InterfacePayload q(expect.data(), expect.size());
        VF_CHECK(q.getStreamIdsCount() == ids.size(), "stream id count read back as " << q.getStreamIdsCount() << ", the bytes say " << ids.size());
        VF_CHECK(q.getVendorDataLength() == vendor.size(), "vendor data length read back as " << q.getVendorDataLength() << ", the bytes say " << vendor.size());
        VF_CHECK(ids.empty() || (q.getStreamIds() && memcmp(q.getStreamIds(), ids.data(), ids.size()) == 0), "stream ids read back differ");
        VF_CHECK(vendor.empty() || (q.getVendorData() && memcmp(q.getVendorData(), vendor.data(), vendor.size()) == 0), "vendor data read back differs");
        {
            // same object, other bytes of the same total size: stream-id count and vendor length exchanged
            Bytes ids2 = fillBytes(c.seed ^ 0x31, vendor.size()), vendor2 = fillBytes(c.seed ^ 0x32, ids.size());
            Bytes expect2 = wire::buildIf(f, ids2, vendor2);
            if (expect2.size() == expect.size() && ids.size() != vendor.size())
            {
                lib::InterfacePayload q2(expect2.data(), expect2.size());
                q = q2;
                VF_CHECK(q.getStreamIdsCount() == ids2.size() && q.getVendorDataLength() == vendor2.size(),
                         "after the object received other bytes of the same total size: stream id count " << q.getStreamIdsCount() << " / vendor length " << q.getVendorDataLength()
                                                                                                           << ", the bytes say " << ids2.size() << " / " << vendor2.size());
                VF_CHECK(ids2.empty() || memcmp(q.getStreamIds(), ids2.data(), ids2.size()) == 0, "after the object received other bytes of the same size the stream ids read back differ");
                VF_CHECK(vendor2.empty() || memcmp(q.getVendorData(), vendor2.data(), vendor2.size()) == 0, "after the object received other bytes of the same size the vendor data read back differs");
                info.tag("same_object_receives_another_layout_of_the_same_size");
            }
        }
        if ((ids.size() & 0x80) || (vendor.size() & 0x80))
            prefixLowByteHigh = true;
        info.tag("variable_part_interface");
    }
    if (prefixLowByteHigh)
        info.tag("length_prefix_with_low_byte_0x80_or_more");
    info.nontrivial = true;
    return Verdict::pass();
}

static Verdict runCase(const Case& c, Info& info)
{
    if (c.mode == 3)
        return runPacketHeaders(c, info);
    if (c.mode == 4)
        return runVariablePart(c, info);
    return withClass(c.cls % kFieldClassCount, [&](auto desc) { return runOn(desc, c, info); });
}

static void enumerate(int, const std::function<bool(const Case&)>& emit)
{
    // variable part: every length 0..520 for one field at a time (the others short), both payload classes
    for (uint8_t cls = 0; cls < 2; ++cls)
        for (size_t pos = 0; pos < (cls == 0 ? 5u : 2u); ++pos)
            for (uint32_t l = 0; l <= 520; ++l)
              for (uint32_t other : {3u, 2u})  // the neighbours odd and even (pad byte present / absent next to the field)
              {
                Case c;
                c.mode = 4;
                c.cls = cls;
                c.seed = l * 7 + static_cast<uint32_t>(pos) + other;
                c.varLens.assign(5, other);
                c.varLens[pos] = l;
                if (!emit(c))
                    return;
              }
    // variable part written over earlier content: every pair (earlier length, new length) in 0..9 for one field at a time,
    // earlier content from setData and from raw bytes
    for (uint8_t cls = 0; cls < 2; ++cls)
        for (size_t pos = 0; pos < (cls == 0 ? 5u : 2u); ++pos)
            for (uint32_t before = 0; before <= 9; ++before)
                for (uint32_t now = 0; now <= 9; ++now)
                    for (uint8_t raw = 0; raw < 2; ++raw)
                    {
                        Case c;
                        c.mode = 4;
                        c.cls = cls;
                        c.seed = before * 11 + now * 3 + static_cast<uint32_t>(pos);
                        c.varLens.assign(5, 2);
                        c.varLens[pos] = now;
                        c.priorLens.assign(5, 4);
                        c.priorLens[pos] = before;
                        c.priorRaw = raw;
                        if (!emit(c))
                            return;
                    }
    for (int cls = 0; cls < kFieldClassCount; ++cls)
    {
        size_t nFields = 0;
        withClass(cls, [&](auto desc) {
            nFields = desc.fields.size();
            return Verdict::pass();
        });
        Case s;
        s.mode = 2;
        s.cls = static_cast<uint8_t>(cls);
        if (!emit(s))
            return;
        for (size_t f = 0; f < nFields; ++f)
            for (uint8_t bg = 0; bg < 3; ++bg)
            {
                Case c;
                c.mode = 0;
                c.cls = static_cast<uint8_t>(cls);
                c.bg = bg;
                c.seed = static_cast<uint32_t>(cls * 100 + f);
                c.sweepField = static_cast<int32_t>(f);
                if (!emit(c))
                    return;
            }
        // bytes -> getters on patterned images
        for (uint32_t seed = 1; seed <= 40; ++seed)
        {
            Case c;
            c.mode = 1;
            c.cls = static_cast<uint8_t>(cls);
            c.bg = 2;
            c.seed = seed * 7919u + static_cast<uint32_t>(cls);
            if (!emit(c))
                return;
        }
    }
}

static rc::Gen<Case> genCase(int tier)
{
    return rc::gen::exec([tier]() {
        Case c;
        c.mode = *rc::gen::weightedElement<uint8_t>({{4, 0}, {4, 1}, {2, 3}, {2, 4}});
        c.cls = *range<uint8_t>(0, kFieldClassCount - 1);
        c.bg = *rc::gen::weightedElement<uint8_t>({{1, 0}, {2, 1}, {5, 2}});
        c.seed = *rc::gen::arbitrary<uint32_t>();
        if (c.mode == 4)
        {
            for (int i = 0; i < 5; ++i)
                c.varLens.push_back(*rc::gen::weightedOneOf<uint32_t>({{1, rc::gen::just<uint32_t>(0)},
                                                                       {4, range<uint32_t>(0, 20)},
                                                                       {3, range<uint32_t>(120, 260)},
                                                                       {2, range<uint32_t>(0, 700)}}));
            // half of them on an object that held other content before (longer, shorter, other parities)
            if (*range<int>(0, 1) == 0)
            {
                for (int i = 0; i < 5; ++i)
                    c.priorLens.push_back(*rc::gen::weightedOneOf<uint32_t>({{1, rc::gen::just<uint32_t>(0)},
                                                                             {5, range<uint32_t>(0, 20)},
                                                                             {2, rc::gen::map(range<int32_t>(-2, 2), [&c, i](int32_t d) { return static_cast<uint32_t>(std::max<int32_t>(0, static_cast<int32_t>(c.varLens[static_cast<size_t>(i)]) + d)); })},
                                                                             {2, range<uint32_t>(0, 300)}}));
                c.priorRaw = *range<uint8_t>(0, 1);
            }
            return c;
        }
        if (c.mode == 3)
        {
            c.packet.kind = *range<uint8_t>(0, 7);
            auto t = *genGenericTypes();
            c.packet.msgType = t.first;
            c.packet.ptype = t.second;
            c.packet.len = *range<uint32_t>(c.packet.kind == rkGeneric ? 1 : 0, 40);
            c.packet.seed = *rc::gen::arbitrary<uint32_t>();
            c.packet.ts = *anyInt<uint64_t>();
            c.packet.ifId = *anyInt<uint32_t>();
            c.packet.vendorId = *anyInt<uint16_t>();
            c.packet.flags = *anyInt<uint8_t>();
            c.relabel = *rc::gen::weightedElement<uint8_t>({{2, 0}, {1, 1}, {1, 2}});
            c.packet.viaApi = *range<uint8_t>(0, 1);
            c.version = *anyInt<uint8_t>();
            c.dev = *anyInt<uint16_t>();
            c.stream = *anyInt<uint8_t>();
            c.seq = *anyInt<uint16_t>();
            return c;
        }
        int n = *range<int>(1, tier ? 30 : 12);
        for (int i = 0; i < n; ++i)
        {
            Op op;
            op.field = *range<uint16_t>(0, 63);
            if (c.mode == 0 && *range<int>(0, 7) == 0)
                op.field = 0x8000;  // data setter, for the classes that have one
            op.value = *rc::gen::weightedOneOf<uint64_t>(
                {{2, rc::gen::element<uint64_t>(0, 1, 0xFFFFFFFFFFFFFFFFull, 0xFFFFFFFFFFFFFFFEull, 0x5555555555555555ull, 0xAAAAAAAAAAAAAAAAull, 0x0102030405060708ull)},
                 {1, rc::gen::map(range<int>(0, 63), [](int b) { return static_cast<uint64_t>(1ull << b); })},
                 {3, rc::gen::arbitrary<uint64_t>()}});
            c.ops.push_back(op);
        }
        return c;
    });
}

int main(int argc, char** argv)
{
    Property<Case> prop;
    prop.id = "C12";
    prop.gen = genCase;
    prop.run = runCase;
    prop.enumerate = enumerate;
    prop.enumerationIsExhaustive = true;
    prop.enumerationNote = "per class: header size + reserved bits of the default object; per field x 3 backgrounds: all values (<= 16 bits) or "
                           "boundary / single-bit / pattern values written through the API and compared with the byte image the layout table "
                           "prescribes; 40 patterned images per class read back through all getters";
    return pbtMain(argc, argv, prop);
}
