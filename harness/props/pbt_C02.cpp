// C02 - decoding arbitrary bytes is memory-safe and terminates: deterministic truncation / field sweep of well-formed seed
// frames of every kind plus generated mutated histories (the coverage-guided part is harness/fuzz/fuzz_decode.cpp).
#include "../common/c02_oracle.h"
#include "../common/gen_frames.h"

using namespace vf;

struct Poke
{
    uint32_t off{0};
    uint8_t width{1};
    uint32_t value{0};
    void io(Ar& a)
    {
        a.num("off", off);
        a.num("width", width);
        a.num("value", value);
    }
};
struct Buf
{
    uint8_t src{0};  // 0 CMP frame recipe, 1 TECMP recipe, 2 raw bytes, 3 CMP frame of exactly tileTotal bytes tiled by unsegmented messages
    uint32_t tileTotal{0};  // src 3: total frame size (the last message takes the remainder, so the messages tile the frame exactly)
    uint16_t tileLen{0};    // src 3: payload length of each message
    uint32_t tileWord{0};   // src 3: low 32 bits of the first message's timestamp (what a walk that restarts at offset 0 would read as
                            // flags / payload type / length)
    FrameRecipe cmp;
    TecmpRecipe tecmp;
    Bytes raw;
    int32_t cutAt{-1};
    std::vector<Poke> pokes;
    void io(Ar& a)
    {
        a.num("src", src);
        cmp.io(a);
        tecmp.io(a);
        a.bytes("raw", raw);
        a.num("cutAt", cutAt);
        a.vec("pokes", pokes);
        a.optionalNum("tileTotal", tileTotal);
        a.optionalNum("tileLen", tileLen);
        a.optionalNum("tileWord", tileWord);
    }
    Bytes tiled() const
    {
        Bytes b;
        wire::CmpHdr h{1, 0, cmp.dev, 1, cmp.stream, cmp.seq};
        wire::putCmpHdr(b, h);
        const size_t total = std::max<size_t>(tileTotal, 24), step = 16 + size_t(tileLen);
        bool first = true;
        while (b.size() < total)
        {
            size_t left = total - b.size();
            size_t len = tileLen;
            if (left < 2 * step)  // last message: takes what is left (if fewer than 16 bytes would remain, they stay a non-message tail)
                len = left >= 16 ? std::min<size_t>(left - 16, 65535) : 0;
            if (left < 16)
            {
                b.insert(b.end(), left, 0);
                break;
            }
            wire::MsgHdr mh;
            mh.timestamp = first ? ((0x1111010000000000ull & 0xFFFFFFFF00000000ull) | tileWord) : 0x0102030405060708ull + b.size();
            mh.idWord = static_cast<uint32_t>(b.size());
            mh.payloadType = 0x20;
            mh.length = static_cast<uint16_t>(len);
            wire::putMsgHdr(b, mh);
            b.insert(b.end(), len, static_cast<uint8_t>(0xA0 | (b.size() & 0xF)));
            first = false;
        }
        return b;
    }
    Bytes build() const
    {
        Bytes b = src == 0 ? cmp.build() : src == 1 ? tecmp.build() : src == 3 ? tiled() : raw;
        for (const auto& p : pokes)
        {
            if (p.width == 1 && p.off < b.size())
                b[p.off] = static_cast<uint8_t>(p.value);
            else if (p.width == 2 && p.off + 1 < b.size())
                wire::set16(b.data() + p.off, static_cast<uint16_t>(p.value));
        }
        if (cutAt >= 0 && static_cast<size_t>(cutAt) < b.size())
            b.resize(static_cast<size_t>(cutAt));
        return b;
    }
};
struct Case
{
    std::vector<Buf> bufs;
    void io(Ar& a)
    {
        a.vec("bufs", bufs);
    }
};

static Verdict runCase(const Case& c, Info& info)
{
    std::vector<Bytes> buffers;
    for (const auto& b : c.bufs)
        buffers.push_back(b.build());
    HistoryStats hs;
    VF_TRY(checkHistory(buffers, hs));
    if (hs.packets)
        info.tag("returned_packets");
    if (hs.pendingAfter)
        info.tag("left_pending_reassembly");
    if (hs.tecmpPackets)
        info.tag("tecmp_conversion");
    if (hs.tecmpBuffers)
        info.tag("tecmp_buffer");
    if (hs.validTyped)
        info.tag("valid_typed_packet_views_checked");
    if (hs.reassembled)
        info.tag("reassembled_packet");
    info.count("packets", hs.packets);
    info.count("buffers", hs.buffers);
    info.nontrivial = hs.packets > 0 || hs.pendingAfter > 0 || hs.tecmpPackets > 0;
    return Verdict::pass();
}

// ---- seed frames ----
static FrameRecipe typedSeed(uint8_t kind, uint32_t seed, uint32_t len, int nMsgs)
{
    FrameRecipe f;
    f.dev = 0x0102;
    f.stream = 7;
    f.seq = 0x1234;
    PacketRecipe r;
    r.kind = kind;
    r.msgType = 1;
    r.ptype = 0x20;
    f.msgType = r.messageType();
    for (int i = 0; i < nMsgs; ++i)
    {
        r.seed = seed + static_cast<uint32_t>(i);
        r.len = len;
        RecipeFields rf = deriveFields(r);
        MsgRecipe m;
        m.ptype = r.payloadTypeByte();
        m.ts = 0x1122334455667788ull;
        m.idWord = 0x00010203;
        m.flags = 0x03;
        m.useBytes = 1;
        m.bytes = oracleBytes(r, rf);
        f.msgs.push_back(m);
    }
    return f;
}

static std::vector<Buf> seedBuffers()
{
    std::vector<Buf> seeds;
    for (uint8_t kind = 0; kind <= 7; ++kind)
    {
        Buf b;
        b.src = 0;
        b.cmp = typedSeed(kind, 40 + kind, kind == rkGeneric ? 9 : 6, kind % 2 ? 1 : 2);
        seeds.push_back(b);
    }
    // segments
    for (uint8_t seg = 1; seg <= 3; ++seg)
    {
        Buf b;
        b.src = 0;
        b.cmp = typedSeed(rkGeneric, 90 + seg, 10, 1);
        b.cmp.msgs[0].seg = seg;
        b.cmp.seq = static_cast<uint16_t>(0x1234 + seg);
        seeds.push_back(b);
    }
    // TECMP: CAN with CRC, CAN-FD, LIN, CM status, bus status
    for (int shape = 0; shape < 5; ++shape)
    {
        Buf b;
        b.src = 1;
        TecmpRecipe& r = b.tecmp;
        r.device = 0x43;
        r.interfaceId = 0x20;
        r.timestamp = 0x6114b53de0ull;
        r.seed = 5u + static_cast<uint32_t>(shape);
        switch (shape)
        {
            case 0:
                r.msgType = 3, r.dataType = 2, r.kind = 0, r.arbId = 0x7b, r.data = fillBytes(1, 8), r.trailer = fillBytes(2, 3);
                break;
            case 1:
                r.msgType = 3, r.dataType = 3, r.kind = 0, r.arbId = 0x9abcdef0, r.data = fillBytes(3, 16);
                break;
            case 2:
                r.msgType = 3, r.dataType = 4, r.kind = 1, r.pid = 0xAA, r.data = fillBytes(4, 5), r.trailer = {0x5c};
                break;
            case 3:
                r.msgType = 1, r.dataType = 0, r.kind = 2;
                break;
            case 4:
                r.msgType = 2, r.dataType = 0, r.kind = 3, r.entries = 2;
                break;
        }
        seeds.push_back(b);
    }
    return seeds;
}

static Buf segmentFrame(uint8_t seg, uint16_t seq)
{
    Buf b;
    b.src = 0;
    b.cmp = typedSeed(rkGeneric, 7, 5, 1);
    b.cmp.msgs[0].seg = seg;
    b.cmp.seq = seq;
    return b;
}

static void enumerate(int tier, const std::function<bool(const Case&)>& emit)
{
    auto seeds = seedBuffers();
    auto wrap = [&](const Buf& mutated) {
        // the mutated buffer sits between a first and a last segment of its endpoint: decoding happens on a decoder
        // with a pending reassembly, and later frames are decoded afterwards
        Case c;
        c.bufs.push_back(segmentFrame(1, 0x1233));
        c.bufs.push_back(mutated);
        c.bufs.push_back(segmentFrame(3, 0x1234));
        return c;
    };
    for (const auto& seed : seeds)
    {
        Bytes full = seed.build();
        // every truncation offset
        for (size_t cut = 0; cut <= full.size(); ++cut)
        {
            Buf b = seed;
            b.cutAt = static_cast<int32_t>(cut);
            if (!emit(wrap(b)))
                return;
        }
        // every byte / 16-bit field set to boundary values
        size_t limit = tier ? full.size() : std::min<size_t>(full.size(), 90);
        for (size_t off = 0; off < limit; ++off)
        {
            uint8_t v = full[off];
            for (int val : {0, 1, v - 1, v + 1, 0x7F, 0x80, 0xFF, 0x40, v ^ 0x04, v ^ 0x08, v ^ 0x0C})
            {
                if ((val & 0xFF) == v)
                    continue;
                Buf b = seed;
                b.pokes.push_back({static_cast<uint32_t>(off), 1, static_cast<uint32_t>(val & 0xFF)});
                if (!emit(wrap(b)))
                    return;
            }
            if (off + 1 < full.size())
            {
                uint16_t w = wire::get16(full.data() + off);
                size_t restAfter = full.size() - off - 2;
                std::vector<int> vals = {0, 1, w - 1, w + 1, 0x7FFF, 0x8000, 0xFFFF, 0xFFFE, static_cast<int>(restAfter), static_cast<int>(restAfter) + 1, static_cast<int>(restAfter) - 1};
                // the top of the 16-bit range (sums with small constants wrap there) and multiples of the entry sizes
                for (int v = 0xFFE0; v <= 0xFFFF; ++v)
                    vals.push_back(v);
                for (int v = 2; v <= 16; ++v)
                    vals.push_back(v);
                for (int val : vals)
                {
                    if ((val & 0xFFFF) == w || val < 0)
                        continue;
                    Buf b = seed;
                    b.pokes.push_back({static_cast<uint32_t>(off), 2, static_cast<uint32_t>(val & 0xFFFF)});
                    if (!emit(wrap(b)))
                        return;
                }
            }
        }
    }
    // the top of the quantified length range: frames of (nearly) 64 KiB tiled exactly to their last byte by tiny unsegmented messages,
    // the first timestamp spelling plausible header tails (offsets and sums close to 2^16; "at most one packet per 12 bytes")
    for (uint32_t total : {65536u, 65535u, 65534u, 65528u, 65520u, 32768u})
        for (uint16_t len : {uint16_t(0), uint16_t(1), uint16_t(4), uint16_t(7), uint16_t(8), uint16_t(100)})
            for (uint32_t word : {0x00200008u, 0x00200018u, 0x0020000Cu, 0x00200000u, 0x00201FF8u, 0x4020FFFFu})
            {
                Buf b;
                b.src = 3;
                b.tileTotal = total;
                b.tileLen = len;
                b.tileWord = word;
                b.cmp.dev = 0x0102;
                b.cmp.stream = 7;
                Case c;
                c.bufs.push_back(b);
                if (!emit(c))
                    return;
            }
    // tiny buffers: every length 0..12 with first byte 0 (TECMP route) and 1 (CMP route)
    for (size_t n = 0; n <= 12; ++n)
        for (uint8_t first : {uint8_t(0), uint8_t(1)})
            for (uint8_t fill : {uint8_t(0), uint8_t(0xFF)})
            {
                Buf b;
                b.src = 2;
                b.raw.assign(n, fill);
                if (n)
                    b.raw[0] = first;
                if (!emit(wrap(b)))
                    return;
            }
}

static rc::Gen<Case> genCase(int tier)
{
    return rc::gen::exec([tier]() {
        Case c;
        auto seeds = seedBuffers();
        int n = *range<int>(1, tier ? 12 : 8);
        HistoryGenParams hp;
        hp.maxFrames = 6;
        hp.bigSegmentHistories = 6;  // accumulations beyond what a 16-bit length can describe
        hp.manyEndpoints = 8;        // dozens / hundreds / a thousand messages in progress at once
        for (int i = 0; i < n; ++i)
        {
            int what = *rc::gen::weightedElement<int>({{5, 0}, {2, 1}, {1, 2}});
            if (what == 1)
            {
                // frames from the history alphabet (segments, aborts, ...)
                FrameHistory h = *genFrameHistory(hp);
                for (auto& f : h.frames)
                {
                    Buf b;
                    if (f.kind == 1)
                    {
                        b.src = 2;
                        b.raw = f.raw;
                    }
                    else
                    {
                        b.src = 0;
                        b.cmp = f;
                    }
                    c.bufs.push_back(b);
                }
                continue;
            }
            if (what == 2)
            {
                Buf b;
                b.src = 2;
                b.raw = *bytesOfLen(*rc::gen::weightedOneOf<size_t>({{4, range<size_t>(0, 64)}, {1, range<size_t>(0, tier ? 4000 : 600)}}));
                if (!b.raw.empty())
                    b.raw[0] = *rc::gen::element<uint8_t>(0, 0, 1, 1, 2, 0xFF);
                c.bufs.push_back(b);
                continue;
            }
            Buf b = seeds[*range<size_t>(0, seeds.size() - 1)];
            if (b.src == 0)
            {
                // re-randomise the payload lengths / kinds a little
                uint8_t kind = *range<uint8_t>(0, 7);
                b.cmp = typedSeed(kind, *rc::gen::arbitrary<uint32_t>(), *range<uint32_t>(0, 40), *range<int>(1, 3));
                b.cmp.dev = *rc::gen::element<uint16_t>(1, 2, 0x0102);
                b.cmp.stream = *rc::gen::element<uint8_t>(0, 7);
            }
            else
            {
                b.tecmp.seed = *rc::gen::arbitrary<uint32_t>();
                if (b.tecmp.kind <= 1)
                    b.tecmp.data = *bytesOfLen(*range<size_t>(0, 64));
                if (b.tecmp.kind == 3)
                    b.tecmp.entries = *rc::gen::weightedOneOf<uint16_t>({{3, range<uint16_t>(0, 12)}, {1, range<uint16_t>(13, 60)}});
                if (b.tecmp.kind >= 2 && *range<int>(0, 2) == 0)
                    b.tecmp.vendorLen = *rc::gen::weightedOneOf<int32_t>({{2, range<int32_t>(0, 40)}, {3, range<int32_t>(0xFFE0, 0xFFFF)}, {1, range<int32_t>(0, 0xFFFF)}});
            }
            Bytes full = b.build();
            int nPokes = *rc::gen::weightedElement<int>({{2, 0}, {4, 1}, {2, 2}, {1, 3}});
            for (int k = 0; k < nPokes && !full.empty(); ++k)
            {
                Poke p;
                p.off = *rc::gen::weightedOneOf<uint32_t>({{3, range<uint32_t>(0, static_cast<uint32_t>(std::min<size_t>(full.size() - 1, 60)))},
                                                           {1, range<uint32_t>(0, static_cast<uint32_t>(full.size() - 1))}});
                p.width = *rc::gen::element<uint8_t>(1, 1, 2);
                p.value = *rc::gen::weightedOneOf<uint32_t>({{3, rc::gen::element<uint32_t>(0, 1, 2, 0x7F, 0x80, 0xFF, 0xFFFF, 0x8000, 0x40, 0x0C, 0x04, 0x08)},
                                                             {1, range<uint32_t>(0, 0xFFFF)},
                                                             {2, rc::gen::map(range<int>(-3, 3), [&](int d) { return static_cast<uint32_t>(std::max<long>(0, static_cast<long>(full.size()) - p.off - 2 + d)); })}});
                b.pokes.push_back(p);
            }
            if (*range<int>(0, 3) == 0)
                b.cutAt = *range<int32_t>(0, static_cast<int32_t>(full.size()));
            c.bufs.push_back(b);
        }
        return c;
    });
}

int main(int argc, char** argv)
{
    Property<Case> prop;
    prop.id = "C02";
    prop.gen = genCase;
    prop.run = runCase;
    prop.enumerate = enumerate;
    prop.enumerationIsExhaustive = true;
    prop.enumerationNote = "16 well-formed seed frames (8 CMP payload kinds, 3 segment kinds, 5 TECMP kinds): every truncation offset, every byte set "
                           "to {0,1,v-1,v+1,0x7F,0x80,0xFF,0x40,v^4,v^8,v^0xC}, every 16-bit field set to {0,1,w-1,w+1,0x7FFF,0x8000,0xFFFE,0xFFFF,rest,"
                           "rest+-1}; each between a first and a last segment on the same decoder; buffers of 0..12 bytes";
    return pbtMain(argc, argv, prop);
}
