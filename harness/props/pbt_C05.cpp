// C05 - segmented messages reassemble correctly under any interleaving (model-based).
#include "../common/frames.h"

using namespace vf;

struct SegSpec
{
    uint16_t len{0};       // declared payload bytes of this segment
    uint8_t trailKind{0};  // 0 none, 1 zeros, 2 fewer than 16 arbitrary bytes, 3 >= 16 bytes whose payload-type byte is 0
    uint8_t trailLen{0};
    uint8_t tsDelta{0};    // later segments may carry another timestamp / flag bits than the first
    uint8_t flagXor{0};
    void io(Ar& a)
    {
        a.num("len", len);
        a.num("trailKind", trailKind);
        a.num("trailLen", trailLen);
        a.num("tsDelta", tsDelta);
        a.num("flagXor", flagXor);
    }
};

struct ScriptMsg
{
    uint8_t segmented{0};
    uint8_t nUnseg{1};  // unsegmented frame: number of messages in it
    std::vector<SegSpec> segs;
    uint8_t ethTyped{0};
    uint8_t ptype{0x20};
    uint8_t flags{0};
    uint64_t ts{0};
    uint32_t idWord{0};
    uint32_t seed{0};
    void io(Ar& a)
    {
        a.num("segmented", segmented);
        a.num("nUnseg", nUnseg);
        a.vec("segs", segs);
        a.num("ethTyped", ethTyped);
        a.num("ptype", ptype);
        a.num("flags", flags);
        a.num("ts", ts);
        a.num("idWord", idWord);
        a.num("seed", seed);
    }
};

struct EndpointScript
{
    uint16_t dev{0};
    uint8_t stream{0};
    uint8_t version{1};
    uint8_t msgType{1};
    uint16_t startSeq{0};
    std::vector<ScriptMsg> msgs;
    void io(Ar& a)
    {
        a.num("dev", dev);
        a.num("stream", stream);
        a.num("version", version);
        a.num("msgType", msgType);
        a.num("startSeq", startSeq);
        a.vec("msgs", msgs);
    }
};

struct Case
{
    std::vector<EndpointScript> eps;
    std::vector<uint8_t> schedule;
    uint32_t idleGap{0};  // > 0: the first time a message is left open, that many unsegmented frames of a foreign endpoint pass, then a
                          // complete two-segment message of it ("any interleaving" has no length limit)
    void io(Ar& a)
    {
        a.vec("eps", eps);
        a.numvec("schedule", schedule);
        a.optionalNum("idleGap", idleGap);
        a.optionalNum("warmup", warmup);
        a.optionalNum("copyAt", copyAt);
        a.optionalNum("crowd", crowd);
    }
    uint16_t crowd{0};  // > 0: that many further endpoints (different device ids, ONE stream id) send the first segment of a two-segment
                        // message before the script and the last segment after it - hundreds of messages in flight at once
    uint16_t copyAt{0};  // > 0: after frame number copyAt-1 the decoder is copied; from then on the copy receives every frame too (after the
                         // original) and must deliver the same packets - a copy of a decoder is a decoder with the same history, and a
                         // separate one
    uint32_t warmup{0};  // > 0: a long-lived decoder - before the script it has already reassembled and delivered that many two-segment
                         // messages (60000 + 5 bytes) of a foreign endpoint, i.e. warmup x 60 KB of segmented traffic in total
};

struct BuiltFrame
{
    Bytes bytes;
    std::vector<model::Delivered> expect;  // derived from the script, independently of the byte-level model
    bool contextSwitchInside{false};
};

static Bytes messagePayload(const ScriptMsg& m, size_t total)
{
    if (m.ethTyped && total >= wire::kEthHeader)
    {
        wire::EthFields f;
        f.flags = (m.seed & 1) ? 0x0080 : 0;
        f.dataLength = static_cast<uint16_t>(total - wire::kEthHeader);
        return wire::buildEth(f, fillBytes(m.seed, total - wire::kEthHeader));
    }
    return fillBytes(m.seed, total);
}

static std::vector<BuiltFrame> buildEndpoint(const EndpointScript& ep, bool& wrapInside, bool& hasTrailing, bool& zeroLenSegment)
{
    std::vector<BuiltFrame> out;
    uint16_t seq = ep.startSeq;
    for (const auto& m : ep.msgs)
    {
        bool typed = m.ethTyped && ep.msgType == wire::kMtData;
        uint8_t ptype = typed ? wire::kPtEthernet : m.ptype;
        if (!m.segmented)
        {
            BuiltFrame bf;
            wire::CmpHdr h{ep.version, 0, ep.dev, ep.msgType, ep.stream, seq};
            wire::putCmpHdr(bf.bytes, h);
            for (int k = 0; k < m.nUnseg; ++k)
            {
                ScriptMsg mk = m;
                mk.seed = m.seed + 7919u * static_cast<uint32_t>(k);
                size_t total = m.segs.empty() ? 4 : m.segs[0].len;
                if (typed && total < wire::kEthHeader)
                    total = wire::kEthHeader;
                Bytes pl = messagePayload(mk, total);
                wire::MsgHdr mh;
                mh.timestamp = m.ts + static_cast<uint64_t>(k);
                mh.idWord = m.idWord;
                mh.flags = static_cast<uint8_t>(m.flags & ~(wire::kFlagSegMask | wire::kFlagError));
                mh.payloadType = ptype;
                mh.length = static_cast<uint16_t>(pl.size());
                wire::putMsgHdr(bf.bytes, mh);
                wire::putBytes(bf.bytes, pl);
                model::Delivered d;
                d.device = ep.dev;
                d.stream = ep.stream;
                d.version = ep.version;
                d.msgType = ep.msgType;
                d.first = mh;
                d.payload = pl;
                bf.expect.push_back(d);
            }
            out.push_back(std::move(bf));
            ++seq;
            continue;
        }
        size_t total = 0;
        for (const auto& s : m.segs)
            total += s.len;
        bool typedOk = typed && total >= wire::kEthHeader;
        ScriptMsg mm = m;
        mm.ethTyped = typedOk;
        Bytes whole = messagePayload(mm, total);
        size_t pos = 0;
        wire::MsgHdr firstHdr;
        for (size_t si = 0; si < m.segs.size(); ++si)
        {
            const SegSpec& s = m.segs[si];
            BuiltFrame bf;
            wire::CmpHdr h{ep.version, 0, ep.dev, ep.msgType, ep.stream, seq};
            if (si > 0 && seq == 0)
                wrapInside = true;
            wire::putCmpHdr(bf.bytes, h);
            wire::MsgHdr mh;
            mh.timestamp = m.ts + (si ? s.tsDelta : 0);
            mh.idWord = m.idWord;
            uint8_t fl = static_cast<uint8_t>(m.flags ^ (si ? s.flagXor : 0));
            fl = static_cast<uint8_t>(fl & ~(wire::kFlagSegMask | wire::kFlagError));
            uint8_t seg = si == 0 ? wire::kSegFirst : (si + 1 == m.segs.size() ? wire::kSegLast : wire::kSegMid);
            mh.flags = static_cast<uint8_t>(fl | (seg << 2));
            mh.payloadType = typedOk ? wire::kPtEthernet : m.ptype;
            mh.length = s.len;
            if (si == 0)
                firstHdr = mh;
            if (s.len == 0)
                zeroLenSegment = true;
            wire::putMsgHdr(bf.bytes, mh);
            wire::putBytes(bf.bytes, whole.data() + pos, s.len);
            pos += s.len;
            // bytes after the declared length that are not a message
            if (s.trailKind == 1)
            {
                bf.bytes.insert(bf.bytes.end(), std::max<size_t>(1, s.trailLen % 49), 0);
                hasTrailing = true;
            }
            else if (s.trailKind == 2)
            {
                Bytes t = fillBytes(m.seed ^ 0xABCD, 1 + s.trailLen % 15);
                wire::putBytes(bf.bytes, t);
                hasTrailing = true;
            }
            else if (s.trailKind == 3)
            {
                Bytes t = fillBytes(m.seed ^ 0x1234, 16 + s.trailLen % 40);
                t[13] = 0;  // payload type byte 0: not a message
                wire::putBytes(bf.bytes, t);
                hasTrailing = true;
            }
            if (si + 1 == m.segs.size())
            {
                model::Delivered d;
                d.device = ep.dev;
                d.stream = ep.stream;
                d.version = ep.version;
                d.msgType = ep.msgType;
                d.first = firstHdr;
                d.payload = whole;
                d.reassembled = true;
                bf.expect.push_back(d);
            }
            out.push_back(std::move(bf));
            ++seq;
        }
    }
    return out;
}

static Verdict runCase(const Case& c, Info& info)
{
    bool wrapInside = false, hasTrailing = false, zeroLen = false;
    std::vector<std::vector<BuiltFrame>> streams;
    for (const auto& ep : c.eps)
        streams.push_back(buildEndpoint(ep, wrapInside, hasTrailing, zeroLen));

    // merge by schedule, preserving per-endpoint order
    std::vector<size_t> next(streams.size(), 0);
    std::vector<std::pair<size_t, size_t>> order;
    size_t total = 0;
    for (auto& s : streams)
        total += s.size();
    size_t si = 0;
    while (order.size() < total)
    {
        size_t pick = c.schedule.empty() ? 0 : c.schedule[si % c.schedule.size()] % streams.size();
        ++si;
        for (size_t k = 0; k < streams.size(); ++k)
        {
            size_t e = (pick + k) % streams.size();
            if (next[e] < streams[e].size())
            {
                order.push_back({e, next[e]++});
                break;
            }
        }
    }

    lib::Decoder dec;
    std::unique_ptr<lib::Decoder> copy;
    model::Reassembler ref;
    size_t deliveredSegmented = 0;
    bool contextSwitch = false;
    // open-message tracking for classification
    std::vector<bool> open(streams.size(), false);
    bool gapDone = false;
    auto crowdFrame = [&](uint16_t k, int part) {
        wire::MsgHdr mh;
        mh.timestamp = 0x5000 + k;
        mh.idWord = k;
        mh.payloadType = 0x20;
        mh.flags = static_cast<uint8_t>((part == 0 ? wire::kSegFirst : wire::kSegLast) << 2);
        Bytes chunk = fillBytes(k * 2u + static_cast<uint32_t>(part), part == 0 ? 6 : 3);
        mh.length = static_cast<uint16_t>(chunk.size());
        Bytes frame;
        wire::CmpHdr h{1, 0, static_cast<uint16_t>(0x6000 + k), wire::kMtData, 0x6B, static_cast<uint16_t>(700 + part)};
        wire::putCmpHdr(frame, h);
        wire::putBytes(frame, wire::buildMessage(mh, chunk));
        return frame;
    };
    for (uint16_t k = 0; k < c.crowd; ++k)
    {
        Bytes frame = crowdFrame(k, 0);
        auto cg = decodeOwned(dec, frame);
        auto ce = ref.feed(frame);
        VF_CHECK(cg.size() == ce.size(), "crowd endpoint " << k << " first segment: decoder returned " << cg.size() << " packets, expected " << ce.size());
    }
    if (c.crowd)
        info.tag("hundreds_of_endpoints_on_one_stream_id_in_flight");
    if (c.warmup)
    {
        uint16_t wdev = 0x7A7A;
        for (const auto& ep : c.eps)
            if (ep.dev == wdev && ep.stream == 0x7B)
                wdev = 0x7A7B;
        uint16_t wseq = 65000;
        for (uint32_t w = 0; w < c.warmup; ++w)
            for (int part = 0; part < 2; ++part)
            {
                wire::MsgHdr mh;
                mh.timestamp = w;
                mh.idWord = 11;
                mh.payloadType = 0x20;
                mh.flags = static_cast<uint8_t>((part == 0 ? wire::kSegFirst : wire::kSegLast) << 2);
                Bytes chunk = fillBytes(w * 2 + static_cast<uint32_t>(part), part == 0 ? 60000 : 5);
                mh.length = static_cast<uint16_t>(chunk.size());
                Bytes frame;
                wire::CmpHdr h{1, 0, wdev, wire::kMtData, 0x7B, wseq++};
                wire::putCmpHdr(frame, h);
                wire::putBytes(frame, wire::buildMessage(mh, chunk));
                auto wgot = decodeOwned(dec, frame);
                auto wexp = ref.feed(frame);
                VF_CHECK(wgot.size() == wexp.size(), "warm-up message " << w << " (frame " << part << "): decoder returned " << wgot.size() << " packets, expected " << wexp.size());
            }
        info.tag("decoder_delivered_a_megabyte_or_more_of_segmented_traffic_before");
    }
    for (size_t i = 0; i < order.size(); ++i)
    {
        size_t e = order[i].first;
        const BuiltFrame& bf = streams[e][order[i].second];
        if (i > 0 && order[i - 1].first != e && open[e])
            contextSwitch = true;
        auto got = decodeOwned(dec, bf.bytes);
        auto exp = ref.feed(bf.bytes);
        if (c.copyAt && i + 1 == c.copyAt && !copy)
        {
            copy = copyIfCopyable(dec);
            if (copy)
                info.tag("decoder_copied_mid_stream_and_both_used");
        }
        else if (copy)
        {
            auto gotCopy = decodeOwned(*copy, bf.bytes);
            VF_CHECK(gotCopy.size() == exp.size(), "frame " << i << ": the copy of the decoder (taken after frame " << (c.copyAt - 1) << ") returned " << gotCopy.size()
                                                            << " packets, expected " << exp.size());
            for (size_t k = 0; k < exp.size(); ++k)
            {
                VF_CHECK(gotCopy[k] != nullptr, "frame " << i << ": null packet from the decoder copy");
                VF_TRY(compareDelivered(*gotCopy[k], exp[k], "decoder copy, frame " + std::to_string(i)));
            }
        }
        // self-check of the oracle: the byte-level model must agree with the expectation derived from the script
        if (exp.size() != bf.expect.size())
            return Verdict::fail("HARNESS-ERROR: reference reassembler disagrees with the script-derived expectation");
        for (size_t k = 0; k < exp.size(); ++k)
            if (exp[k].payload != bf.expect[k].payload || exp[k].first.timestamp != bf.expect[k].first.timestamp)
                return Verdict::fail("HARNESS-ERROR: reference reassembler payload disagrees with the script");
        std::ostringstream where;
        where << "frame " << i << " (endpoint " << c.eps[e].dev << "/" << int(c.eps[e].stream) << ", " << bf.bytes.size() << " bytes)";
        VF_CHECK(got.size() == exp.size(), where.str() << ": decoder returned " << got.size() << " packets, expected " << exp.size());
        for (size_t k = 0; k < exp.size(); ++k)
        {
            VF_CHECK(got[k] != nullptr, where.str() << ": null packet");
            VF_TRY(compareDelivered(*got[k], exp[k], where.str()));
            if (exp[k].reassembled)
                ++deliveredSegmented;
        }
        // classification state
        if (bf.bytes.size() >= 24)
        {
            uint8_t seg = (bf.bytes[8 + 12] >> 2) & 3;
            open[e] = (seg == 1 || seg == 2);
        }
        if (c.idleGap && !gapDone && open[e])
        {
            gapDone = true;
            // a foreign endpoint that is none of the scripted ones
            uint16_t fdev = 0x7A7A;
            uint8_t fstream = 0x7A;
            for (const auto& ep : c.eps)
                if (ep.dev == fdev && ep.stream == fstream)
                    fdev = 0x7A7B;
            uint16_t fseq = 100;
            for (uint32_t g = 0; g < c.idleGap + 2; ++g)
            {
                wire::MsgHdr mh;
                mh.timestamp = g;
                mh.idWord = 9;
                mh.payloadType = 0x20;
                uint8_t seg = g < c.idleGap ? wire::kSegNone : g == c.idleGap ? wire::kSegFirst : wire::kSegLast;
                mh.flags = static_cast<uint8_t>(seg << 2);
                Bytes chunk = fillBytes(g, 5);
                mh.length = static_cast<uint16_t>(chunk.size());
                Bytes frame;
                wire::CmpHdr h{1, 0, fdev, wire::kMtData, fstream, fseq++};
                wire::putCmpHdr(frame, h);
                wire::putBytes(frame, wire::buildMessage(mh, chunk));
                auto fgot = decodeOwned(dec, frame);
                auto fexp = ref.feed(frame);
                VF_CHECK(fgot.size() == fexp.size(), "foreign frame " << g << " of the idle gap: decoder returned " << fgot.size() << " packets, expected " << fexp.size());
            }
            info.tag("idle_gap_of_foreign_frames_inside_open_message");
        }
    }
    for (uint16_t k = 0; k < c.crowd; ++k)
    {
        Bytes frame = crowdFrame(k, 1);
        auto cg = decodeOwned(dec, frame);
        auto ce = ref.feed(frame);
        VF_CHECK(cg.size() == ce.size(), "crowd endpoint " << k << " (device " << (0x6000 + k) << ", stream 107) last segment: decoder returned " << cg.size() << " packets, expected " << ce.size());
        for (size_t q = 0; q < ce.size(); ++q)
            VF_TRY(compareDelivered(*cg[q], ce[q], "crowd endpoint " + std::to_string(k)));
    }
    if (contextSwitch)
        info.tag("context_switch_inside_open_message");
    if (wrapInside)
        info.tag("counter_wrap_inside_message");
    if (hasTrailing)
        info.tag("trailing_bytes_after_segment");
    if (zeroLen)
        info.tag("zero_length_segment");
    for (const auto& ep : c.eps)
        for (const auto& m : ep.msgs)
        {
            size_t total = 0;
            for (const auto& sg : m.segs)
                total += sg.len;
            if (m.segmented && total >= 65495)
                info.tag("reassembled_total_within_40_of_65535");
            if (m.segmented && total == 65535)
                info.tag("reassembled_total_65535");
            if (m.segmented && m.segs.size() >= 255)
                info.tag("message_of_255_or_more_segments");
        }
    if (deliveredSegmented)
        info.tag("segmented_message_delivered");
    info.count("segmented_deliveries", deliveredSegmented);
    info.count("frames", order.size());
    info.nontrivial = deliveredSegmented > 0 && (contextSwitch || wrapInside || hasTrailing || zeroLen);
    return Verdict::pass();
}

static rc::Gen<Case> genCase(int tier)
{
    return rc::gen::exec([tier]() {
        Case c;
        // one case in ten: a long stretch of foreign traffic inside the first open message
        if (*range<int>(0, 9) == 0)
            c.idleGap = *rc::gen::weightedOneOf<uint32_t>({{2, range<uint32_t>(17, 300)}, {2, range<uint32_t>(1025, 1400)}, {1, range<uint32_t>(4000, 5000)}});
        // one case in twenty: a long-lived decoder that has already delivered 1 / 2 / 4 MiB of segmented traffic
        if (*range<int>(0, 19) == 0)
            c.warmup = *rc::gen::weightedOneOf<uint32_t>({{3, range<uint32_t>(17, 22)}, {1, range<uint32_t>(35, 40)}, {1, range<uint32_t>(70, 75)}});
        // one case in twenty: hundreds of further endpoints on one stream id have a message in flight during the whole script
        if (*range<int>(0, 19) == 0)
            c.crowd = *rc::gen::weightedOneOf<uint16_t>({{3, range<uint16_t>(250, 262)}, {1, range<uint16_t>(1020, 1030)}, {1, range<uint16_t>(60, 70)}});
        // one case in six: the decoder is copied somewhere in the stream and both objects go on receiving it
        if (*range<int>(0, 5) == 0)
            c.copyAt = *range<uint16_t>(1, 30);
        int nEp = *range<int>(1, 4);
        // alphabet chosen so that same-device/other-stream and same-stream/other-device pairs occur
        static const std::pair<uint16_t, uint8_t> alphabet[] = {{1, 0},      {1, 5},      {2, 0},      {2, 5},      {0xFFFF, 0xFF}, {0, 0},
                                                                {0x0100, 1}, {1, 1},      {0x0101, 1}, {0x0200, 0}, {0, 2},         {0x0001, 0xFF},
                                                                {0xFF01, 0}, {0x00FF, 0}, {0xFF00, 0}, {0, 0xFF}};
        std::vector<int> idx = {0, 1, 2, 3, 4, 5, 6, 7, 8, 9, 10, 11, 12, 13, 14, 15};
        for (int i = 0; i < nEp; ++i)
        {
            int k = *range<int>(0, static_cast<int>(idx.size()) - 1);
            EndpointScript ep;
            ep.dev = alphabet[idx[k]].first;
            ep.stream = alphabet[idx[k]].second;
            idx.erase(idx.begin() + k);
            ep.version = *rc::gen::weightedOneOf<uint8_t>({{3, rc::gen::just<uint8_t>(1)}, {1, range<uint8_t>(1, 255)}});
            ep.msgType = *rc::gen::weightedOneOf<uint8_t>({{4, rc::gen::just<uint8_t>(1)}, {2, rc::gen::element<uint8_t>(2, 3, 0xFF)}, {1, range<uint8_t>(1, 255)}});
            ep.startSeq = *rc::gen::weightedOneOf<uint16_t>(
                {{4, rc::gen::element<uint16_t>(0, 1, 100, 65530, 65531, 65532, 65533, 65534, 65535, 32765, 32766, 32767)}, {1, anyInt<uint16_t>()}});
            int nMsg = *range<int>(1, tier ? 8 : 5);
            for (int m = 0; m < nMsg; ++m)
            {
                ScriptMsg sm;
                sm.segmented = *rc::gen::weightedElement<uint8_t>({{1, 0}, {3, 1}});
                sm.nUnseg = *range<uint8_t>(1, 3);
                sm.ethTyped = *rc::gen::weightedElement<uint8_t>({{2, 0}, {1, 1}});
                sm.ptype = *rc::gen::element<uint8_t>(0x20, 0x21, 0xFF, 0x09);
                sm.flags = static_cast<uint8_t>(*anyInt<uint8_t>() & ~0x4C);
                sm.ts = *anyInt<uint64_t>();
                sm.idWord = *anyInt<uint32_t>();
                sm.seed = *rc::gen::arbitrary<uint32_t>();
                int nSeg = sm.segmented ? *rc::gen::weightedOneOf<int>({{4, range<int>(2, 6)}, {1, range<int>(2, tier ? 40 : 12)}}) : 1;
                // the top of the legal range: reassembled totals at / just below 65535 (16-bit length field) and around 2^15
                if (sm.segmented && *range<int>(0, 24) == 0)
                {
                    size_t total = *rc::gen::weightedOneOf<size_t>({{3, rc::gen::map(range<size_t>(0, 40), [](size_t d) { return size_t(65535) - d; })},
                                                                    {1, range<size_t>(32760, 32775)},
                                                                    {1, range<size_t>(65000, 65535)}});
                    nSeg = *range<int>(2, 48);
                    size_t each = total / static_cast<size_t>(nSeg);
                    size_t left = total;
                    for (int s = 0; s < nSeg; ++s)
                    {
                        SegSpec sp;
                        sp.len = static_cast<uint16_t>(s + 1 == nSeg ? left : each);
                        left -= sp.len;
                        sp.trailKind = *rc::gen::weightedElement<uint8_t>({{8, 0}, {1, 1}});
                        sp.trailLen = *anyInt<uint8_t>();
                        sm.segs.push_back(sp);
                    }
                    ep.msgs.push_back(sm);
                    continue;
                }
                // many tiny segments (segment counts around 2^8 and beyond)
                if (sm.segmented && *range<int>(0, 59) == 0)
                {
                    nSeg = *rc::gen::weightedOneOf<int>({{2, rc::gen::element<int>(255, 256, 257)}, {1, range<int>(258, 700)}});
                    for (int s = 0; s < nSeg; ++s)
                    {
                        SegSpec sp;
                        sp.len = *range<uint16_t>(0, 2);
                        sm.segs.push_back(sp);
                    }
                    ep.msgs.push_back(sm);
                    continue;
                }
                size_t budget = 65535;
                for (int s = 0; s < nSeg; ++s)
                {
                    SegSpec sp;
                    sp.len = *rc::gen::weightedOneOf<uint16_t>({{1, rc::gen::just<uint16_t>(0)},
                                                                {6, range<uint16_t>(1, 40)},
                                                                {2, range<uint16_t>(0, tier ? 1500 : 200)},
                                                                {1, range<uint16_t>(900, 1500)}});
                    if (sp.len > budget)
                        sp.len = static_cast<uint16_t>(budget);
                    budget -= sp.len;
                    if (sm.segmented)
                    {
                        sp.trailKind = *rc::gen::weightedElement<uint8_t>({{6, 0}, {2, 1}, {1, 2}, {1, 3}});
                        sp.trailLen = *anyInt<uint8_t>();
                        sp.tsDelta = *rc::gen::weightedElement<uint8_t>({{3, 0}, {1, 1}});
                        sp.flagXor = *rc::gen::weightedElement<uint8_t>({{3, 0}, {1, 0x01}, {1, 0x22}});
                    }
                    sm.segs.push_back(sp);
                }
                ep.msgs.push_back(sm);
            }
            c.eps.push_back(ep);
        }
        int nSched = *range<int>(1, 40);
        for (int i = 0; i < nSched; ++i)
            c.schedule.push_back(*range<uint8_t>(0, 3));
        return c;
    });
}

// Coverage-guided mode: any field image -> a case of the property's domain (distinct endpoints, version / message type != 0, generic
// payload types that no typed validator claims, 2..n segments with a total <= 65535 for segmented messages), with bounded work.
static void normalizeCase(Case& c)
{
    if (c.eps.empty())
        c.eps.push_back(EndpointScript{});
    if (c.eps.size() > 6)
        c.eps.resize(6);
    if (c.idleGap > 5000)
        c.idleGap = 1000 + c.idleGap % 4001;
    if (c.schedule.size() > 64)
        c.schedule.resize(64);
    if (c.warmup > 80)
        c.warmup = c.warmup % 81;
    if (c.crowd > 1100)
        c.crowd = static_cast<uint16_t>(c.crowd % 1101);
    if (c.copyAt > 4000)
        c.copyAt = static_cast<uint16_t>(c.copyAt % 4001);
    std::set<std::pair<uint16_t, uint8_t>> seen;
    std::vector<EndpointScript> keep;
    size_t frames = 0, bytes = 0;
    for (auto& ep : c.eps)
    {
        if (ep.stream == 0x6B && ep.dev >= 0x6000 && ep.dev < 0x6000 + 1101)
            ep.stream = 0x6C;  // reserved for the crowd
        if ((ep.stream == 0x7A || ep.stream == 0x7B) && (ep.dev == 0x7A7A || ep.dev == 0x7A7B))
            ep.dev = 0x7A7C;  // reserved for the foreign traffic of the idle gap / the warm-up
        if (!seen.insert({ep.dev, ep.stream}).second)
            continue;
        if (ep.version == 0)
            ep.version = 1;
        if (ep.msgType == 0)
            ep.msgType = 1;
        if (ep.msgs.size() > 10)
            ep.msgs.resize(10);
        for (auto& m : ep.msgs)
        {
            m.segmented = m.segmented ? 1 : 0;
            m.ethTyped = m.ethTyped ? 1 : 0;
            m.nUnseg = static_cast<uint8_t>(1 + (m.nUnseg + 2) % 3);
            if (m.ptype < 0x09)
                m.ptype = static_cast<uint8_t>(m.ptype | 0x20);
            m.flags = static_cast<uint8_t>(m.flags & ~0x4C);
            if (m.segs.empty())
                m.segs.push_back(SegSpec{});
            if (m.segmented)
            {
                if (m.segs.size() < 2)
                    m.segs.push_back(SegSpec{});
                if (m.segs.size() > 800)
                    m.segs.resize(800);
                size_t budget = 65535;
                for (auto& sg : m.segs)
                {
                    if (sg.len > budget)
                        sg.len = static_cast<uint16_t>(budget);
                    budget -= sg.len;
                    if (sg.trailKind > 3)
                        sg.trailKind = 0;
                    frames += 1;
                    bytes += sg.len;
                }
            }
            else
            {
                m.segs.resize(1);
                m.segs[0].trailKind = 0;
                frames += 1;
                bytes += size_t(m.segs[0].len) * m.nUnseg;
            }
        }
        // bounded work per input: drop the tail of a script that makes the case too large
        while (!ep.msgs.empty() && (frames > 4000 || bytes > 600000))
        {
            const auto& m = ep.msgs.back();
            for (const auto& sg : m.segs)
                bytes -= std::min<size_t>(bytes, size_t(sg.len) * (m.segmented ? 1 : m.nUnseg));
            frames -= std::min(frames, m.segs.size());
            ep.msgs.pop_back();
        }
        keep.push_back(ep);
    }
    c.eps = keep;
}

int main(int argc, char** argv)
{
    Property<Case> prop;
    prop.id = "C05";
    prop.normalize = normalizeCase;
    prop.gen = genCase;
    prop.run = runCase;
    return pbtMain(argc, argv, prop);
}
