// C13 - payload builders store data faithfully and produce self-valid payloads (stateful + metamorphic fresh-object check).
#include "../common/views.h"

using namespace vf;

struct Step
{
    uint32_t seed{0};
    uint32_t len{0};        // data / samples / stream-id bytes
    uint32_t len2{0};       // vendor data
    uint16_t strLen[4]{};   // capture-module strings
    uint8_t headerFirst{1}; // header setters before (1) or after (0) setData
    void io(Ar& a)
    {
        a.num("seed", seed);
        a.num("len", len);
        a.num("len2", len2);
        a.num("s0", strLen[0]);
        a.num("s1", strLen[1]);
        a.num("s2", strLen[2]);
        a.num("s3", strLen[3]);
        a.num("headerFirst", headerFirst);
    }
};
struct Case
{
    uint8_t cls{0};  // PayloadClass
    std::vector<Step> history;
    Step last;
    uint8_t fromRaw{0};   // 0 default-constructed object; 1 object constructed from raw bytes (a received payload) ...
    uint8_t rawSlack{0};  // ... with this many bytes of slack after the data, as the validators accept
    Step rawStep;
    void io(Ar& a)
    {
        a.num("cls", cls);
        a.vec("history", history);
        last.io(a);
        if (a.writing || a.peekName() == "fromRaw")
        {
            a.num("fromRaw", fromRaw);
            a.num("rawSlack", rawSlack);
            rawStep.io(a);
        }
    }
};

static RecipeFields fieldsFor(uint8_t cls, const Step& s)
{
    PacketRecipe r;
    static const uint8_t kinds[] = {rkCan, rkCanFd, rkLin, rkEthernet, rkAnalog, rkCmStatus, rkIfStatus};
    r.kind = kinds[cls % 7];
    r.seed = s.seed;
    r.len = s.len;
    RecipeFields f = deriveFields(r);
    if (cls == pcCm)
    {
        for (int i = 0; i < 4; ++i)
            f.str[i] = fillString(s.seed ^ (0x50u + static_cast<uint32_t>(i)), s.strLen[i]);
        f.vendor = fillBytes(s.seed ^ 0x55, s.len2);
    }
    else if (cls == pcIf)
    {
        f.streamIds = fillBytes(s.seed ^ 0x66, s.len);
        f.vendor = fillBytes(s.seed ^ 0x67, s.len2);
    }
    else if (cls == pcAnalog)
    {
        f.data = fillBytes(s.seed ^ 0x44, s.len);  // any byte count (a trailing partial sample is allowed by the API)
    }
    return f;
}

static const uint8_t kDummy = 0;
static const uint8_t* ptrOf(const Bytes& b)
{
    return b.empty() ? &kDummy : b.data();  // data pointers are non-null even for length 0
}

static void setHeader(lib::CanPayload& p, const RecipeFields& f)
{
    p.setFlags(f.can.flags);
    p.setId(f.can.idWord & 0x1FFFFFFF);
    p.setRsvd((f.can.idWord >> 29) & 1);
    p.setRtr((f.can.idWord >> 30) & 1);
    p.setIde((f.can.idWord >> 31) & 1);
    p.setCrc(static_cast<uint16_t>(f.can.crcWord & 0x7FFF));
    p.setCrcSupport((f.can.crcWord >> 31) & 1);
    p.setErrorPosition(0);
}
static void setHeader(lib::CanFdPayload& p, const RecipeFields& f)
{
    p.setFlags(f.can.flags);
    p.setId(f.can.idWord & 0x1FFFFFFF);
    p.setRsvd((f.can.idWord >> 29) & 1);
    p.setRrs((f.can.idWord >> 30) & 1);
    p.setIde((f.can.idWord >> 31) & 1);
    p.setCrc(f.can.crcWord & 0x1FFFFF);
    p.setSbc(static_cast<uint8_t>((f.can.crcWord >> 21) & 7));
    p.setSbcParity((f.can.crcWord >> 24) & 1);
    p.setSbcSupport((f.can.crcWord >> 30) & 1);
    p.setCrcSupport((f.can.crcWord >> 31) & 1);
    p.setErrorPosition(0);
}
static void setHeader(lib::LinPayload& p, const RecipeFields& f)
{
    p.setFlags(f.lin.flags);
    p.setLinId(f.lin.pid & 0x3F);
    p.setParityBits(f.lin.pid >> 6);
    p.setChecksum(f.lin.checksum);
}
static void setHeader(lib::EthernetPayload& p, const RecipeFields& f)
{
    p.setFlags(f.eth.flags);
}
static void setHeader(lib::AnalogPayload& p, const RecipeFields& f)
{
    p.setSampleDt((f.analog.flags & 1) ? lib::AnalogPayload::SampleDt::aInt32 : lib::AnalogPayload::SampleDt::aInt16);
    p.setUnit(static_cast<lib::AnalogPayload::Unit>(f.analog.unit));
    p.setSampleInterval(wire::bitsFloat(f.analog.intervalBits));
    p.setSampleOffset(wire::bitsFloat(f.analog.offsetBits));
    p.setSampleScalar(wire::bitsFloat(f.analog.scalarBits));
}
static void setHeader(lib::CaptureModulePayload& p, const RecipeFields& f)
{
    p.setUptime(f.cm.uptime);
    p.setGmIdentity(f.cm.gmIdentity);
    p.setGmClockQuality(f.cm.gmClockQuality);
    p.setCurrentUtcOffset(f.cm.currentUtcOffset);
    p.setTimeSource(f.cm.timeSource);
    p.setDomainNumber(f.cm.domainNumber);
    p.setGptpFlags(f.cm.gptpFlags);
}
static void setHeader(lib::InterfacePayload& p, const RecipeFields& f)
{
    p.setInterfaceId(f.ifs.interfaceId);
    p.setMsgTotalRx(f.ifs.msgTotalRx);
    p.setMsgTotalTx(f.ifs.msgTotalTx);
    p.setMsgDroppedRx(f.ifs.msgDroppedRx);
    p.setMsgDroppedTx(f.ifs.msgDroppedTx);
    p.setErrorsTotalRx(f.ifs.errorsTotalRx);
    p.setErrorsTotalTx(f.ifs.errorsTotalTx);
    p.setInterfaceType(f.ifs.interfaceType);
    p.setInterfaceStatus(static_cast<lib::InterfacePayload::InterfaceStatus>(f.ifs.interfaceStatus));
    p.setFeatureSupportBitmask(f.ifs.featureSupportBitmask);
}

static void setData(lib::CanPayload& p, const RecipeFields& f)
{
    p.setData(ptrOf(f.data), static_cast<uint8_t>(f.data.size()));
}
static void setData(lib::CanFdPayload& p, const RecipeFields& f)
{
    p.setData(ptrOf(f.data), static_cast<uint8_t>(f.data.size()));
}
static void setData(lib::LinPayload& p, const RecipeFields& f)
{
    p.setData(ptrOf(f.data), static_cast<uint8_t>(f.data.size()));
}
static void setData(lib::EthernetPayload& p, const RecipeFields& f)
{
    p.setData(ptrOf(f.data), static_cast<uint16_t>(f.data.size()));
}
static void setData(lib::AnalogPayload& p, const RecipeFields& f)
{
    p.setData(ptrOf(f.data), f.data.size());
}
static void setData(lib::CaptureModulePayload& p, const RecipeFields& f)
{
    if (f.cm.uptime & 1)
    {
        // the strings arrive as views that are not NUL-terminated
        UnterminatedViews uv(f.str);
        p.setData(uv.view[0], uv.view[1], uv.view[2], uv.view[3], f.vendor);
    }
    else
    {
        // half of these calls pass an empty string as a default-constructed view (data() == nullptr) - "no text" as many callers spell it
        auto sv = [&](int i) { return (f.str[i].empty() && (f.cm.uptime & 2)) ? std::string_view{} : std::string_view(f.str[i]); };
        p.setData(sv(0), sv(1), sv(2), sv(3), f.vendor);
    }
}
static void setData(lib::InterfacePayload& p, const RecipeFields& f)
{
    p.setData(ptrOf(f.streamIds), static_cast<uint16_t>(f.streamIds.size()), ptrOf(f.vendor), static_cast<uint16_t>(f.vendor.size()));
}

template <class P>
static void applyStep(P& p, const RecipeFields& f, bool headerFirst)
{
    if (headerFirst)
    {
        setHeader(p, f);
        setData(p, f);
    }
    else
    {
        setData(p, f);
        setHeader(p, f);
    }
}

static Verdict bytesEqual(const uint8_t* p, size_t n, const Bytes& expect, const char* what)
{
    VF_CHECK(n == expect.size(), what << ": length " << n << ", supplied " << expect.size());
    if (n)
    {
        VF_CHECK(p != nullptr, what << ": null pointer for " << n << " bytes");
        VF_CHECK(memcmp(p, expect.data(), n) == 0, what << ": bytes differ from the data supplied");
    }
    return Verdict::pass();
}

// ---- class-specific content checks (getters + independent parse of the raw bytes) ----
static Verdict checkContent(const lib::CanPayload& p, const RecipeFields& f, const Bytes& raw)
{
    VF_TRY(bytesEqual(p.getData(), p.getDataLength(), f.data, "CAN data"));
    VF_CHECK(raw.size() == 16 + f.data.size(), "CAN payload length " << raw.size());
    auto w = wire::parseCan(raw.data());
    VF_CHECK(w.dataLength == f.data.size(), "CAN data length field " << int(w.dataLength));
    bool defined;
    uint8_t dlc = wire::canDlcFor(static_cast<uint8_t>(f.data.size()), defined);
    if (defined)
        VF_CHECK(w.dlc == dlc && p.getDlc() == dlc, "CAN DLC " << int(w.dlc) << " for " << f.data.size() << " bytes, expected " << int(dlc));
    VF_CHECK(p.getFlags() == f.can.flags && p.getId() == (f.can.idWord & 0x1FFFFFFF) && p.getRsvd() == ((f.can.idWord >> 29) & 1) &&
                 p.getRtr() == ((f.can.idWord >> 30) & 1) && p.getIde() == ((f.can.idWord >> 31) & 1) &&
                 p.getCrc() == (f.can.crcWord & 0x7FFF) && p.getCrcSupport() == ((f.can.crcWord >> 31) & 1) && p.getErrorPosition() == 0,
             "CAN header fields set earlier are not preserved");
    VF_CHECK(w.flags == f.can.flags && w.idWord == f.can.idWord && w.crcWord == f.can.crcWord && w.reserved == 0, "CAN raw header differs from the values set");
    return Verdict::pass();
}
static Verdict checkContent(const lib::CanFdPayload& p, const RecipeFields& f, const Bytes& raw)
{
    VF_TRY(bytesEqual(p.getData(), p.getDataLength(), f.data, "CAN-FD data"));
    VF_CHECK(raw.size() == 16 + f.data.size(), "CAN-FD payload length " << raw.size());
    auto w = wire::parseCan(raw.data());
    VF_CHECK(w.dataLength == f.data.size(), "CAN-FD data length field " << int(w.dataLength));
    bool defined;
    uint8_t dlc = wire::canDlcFor(static_cast<uint8_t>(f.data.size()), defined);
    if (defined)
        VF_CHECK(w.dlc == dlc && p.getDlc() == dlc, "CAN-FD DLC " << int(w.dlc) << " for " << f.data.size() << " bytes, expected " << int(dlc));
    VF_CHECK(p.getFlags() == f.can.flags && p.getId() == (f.can.idWord & 0x1FFFFFFF) && p.getRsvd() == ((f.can.idWord >> 29) & 1) &&
                 p.getRrs() == ((f.can.idWord >> 30) & 1) && p.getIde() == ((f.can.idWord >> 31) & 1) && p.getCrc() == (f.can.crcWord & 0x1FFFFF) &&
                 p.getSbc() == ((f.can.crcWord >> 21) & 7) && p.getSbcParity() == ((f.can.crcWord >> 24) & 1) &&
                 p.getSbcSupport() == ((f.can.crcWord >> 30) & 1) && p.getCrcSupport() == ((f.can.crcWord >> 31) & 1) && p.getErrorPosition() == 0,
             "CAN-FD header fields set earlier are not preserved");
    VF_CHECK(w.flags == f.can.flags && w.idWord == f.can.idWord && w.crcWord == f.can.crcWord && w.reserved == 0, "CAN-FD raw header differs from the values set");
    return Verdict::pass();
}
static Verdict checkContent(const lib::LinPayload& p, const RecipeFields& f, const Bytes& raw)
{
    VF_TRY(bytesEqual(p.getData(), p.getDataLength(), f.data, "LIN data"));
    VF_CHECK(raw.size() == 8 + f.data.size(), "LIN payload length " << raw.size());
    auto w = wire::parseLin(raw.data());
    VF_CHECK(w.dataLength == f.data.size(), "LIN data length field " << int(w.dataLength));
    VF_CHECK(p.getFlags() == f.lin.flags && p.getLinId() == (f.lin.pid & 0x3F) && p.getParityBits() == (f.lin.pid >> 6) && p.getChecksum() == f.lin.checksum,
             "LIN header fields set earlier are not preserved");
    VF_CHECK(w.flags == f.lin.flags && w.pid == f.lin.pid && w.checksum == f.lin.checksum && w.reserved1 == 0 && w.reserved2 == 0, "LIN raw header differs from the values set");
    return Verdict::pass();
}
static Verdict checkContent(const lib::EthernetPayload& p, const RecipeFields& f, const Bytes& raw)
{
    VF_TRY(bytesEqual(p.getData(), p.getDataLength(), f.data, "Ethernet data"));
    VF_CHECK(raw.size() == 6 + f.data.size(), "Ethernet payload length " << raw.size());
    auto w = wire::parseEth(raw.data());
    VF_CHECK(w.dataLength == f.data.size(), "Ethernet data length field " << w.dataLength);
    VF_CHECK(p.getFlags() == f.eth.flags && w.flags == f.eth.flags && w.reserved == 0, "Ethernet header fields set earlier are not preserved");
    return Verdict::pass();
}
static Verdict checkContent(const lib::AnalogPayload& p, const RecipeFields& f, const Bytes& raw)
{
    size_t sample = (f.analog.flags & 1) ? 4 : 2;
    VF_CHECK(raw.size() == 16 + f.data.size(), "analog payload length " << raw.size());
    VF_CHECK(p.getSamplesCount() == f.data.size() / sample, "analog sample count " << p.getSamplesCount() << " for " << f.data.size() << " bytes of " << sample << "-byte samples");
    if (p.getSamplesCount())
        VF_CHECK(p.getData() && memcmp(p.getData(), f.data.data(), f.data.size()) == 0, "analog samples differ from the data supplied");
    VF_CHECK(memcmp(raw.data() + 16, f.data.data(), f.data.size()) == 0 || f.data.empty(), "analog raw sample bytes differ");
    auto w = wire::parseAnalog(raw.data());
    VF_CHECK(w.flags == (f.analog.flags & 1) && w.unit == f.analog.unit && w.intervalBits == f.analog.intervalBits && w.offsetBits == f.analog.offsetBits &&
                 w.scalarBits == f.analog.scalarBits && w.reserved == 0,
             "analog raw header differs from the values set");
    VF_CHECK(static_cast<unsigned>(p.getUnit()) == f.analog.unit && wire::floatBits(p.getSampleInterval()) == f.analog.intervalBits &&
                 wire::floatBits(p.getSampleOffset()) == f.analog.offsetBits && wire::floatBits(p.getSampleScalar()) == f.analog.scalarBits,
             "analog header fields set earlier are not preserved");
    return Verdict::pass();
}
static Verdict checkContent(const lib::CaptureModulePayload& p, const RecipeFields& f, const Bytes& raw)
{
    VF_CHECK(std::string(p.getDeviceDescription()) == f.str[0], "device description '" << p.getDeviceDescription() << "'");
    VF_CHECK(std::string(p.getSerialNumber()) == f.str[1], "serial number");
    VF_CHECK(std::string(p.getHardwareVersion()) == f.str[2], "hardware version");
    VF_CHECK(std::string(p.getSoftwareVersion()) == f.str[3], "software version");
    VF_TRY(bytesEqual(p.getVendorData(), p.getVendorDataLength(), f.vendor, "CM vendor data"));
    auto sv = p.getVendorDataStringView();
    VF_TRY(bytesEqual(reinterpret_cast<const uint8_t*>(sv.data()), sv.size(), f.vendor, "CM vendor data string view"));
    // independent parse: NUL-terminated, zero-padded even-length strings, exact vendor data, nothing left over
    wire::CmVar v;
    VF_CHECK(wire::walkCm(raw.data(), raw.size(), v), "the five length-prefixed fields do not fit the payload of " << raw.size() << " bytes");
    VF_CHECK(v.end == raw.size(), "payload has " << raw.size() - v.end << " bytes after the vendor data");
    for (int i = 0; i < 4; ++i)
    {
        VF_CHECK(v.len[i] % 2 == 0, "string " << i << " has odd stored length " << v.len[i]);
        VF_CHECK(v.len[i] >= f.str[i].size() + 1 && v.len[i] <= f.str[i].size() + 2, "string " << i << " of " << f.str[i].size() << " chars stored in " << v.len[i] << " bytes");
        VF_CHECK(memcmp(raw.data() + v.off[i], f.str[i].data(), f.str[i].size()) == 0, "string " << i << " bytes differ");
        for (size_t k = f.str[i].size(); k < v.len[i]; ++k)
            VF_CHECK(raw[v.off[i] + k] == 0, "string " << i << " is not NUL-terminated / zero-padded (byte " << k << " of the field is " << int(raw[v.off[i] + k]) << ")");
    }
    VF_CHECK(v.len[4] == f.vendor.size() && (f.vendor.empty() || memcmp(raw.data() + v.off[4], f.vendor.data(), f.vendor.size()) == 0), "raw vendor data differs");
    auto h = wire::parseCmHeader(raw.data());
    VF_CHECK(h.uptime == f.cm.uptime && h.gmIdentity == f.cm.gmIdentity && h.gmClockQuality == f.cm.gmClockQuality && h.currentUtcOffset == f.cm.currentUtcOffset &&
                 h.timeSource == f.cm.timeSource && h.domainNumber == f.cm.domainNumber && h.gptpFlags == f.cm.gptpFlags && h.reserved == 0,
             "capture-module raw header differs from the values set");
    VF_CHECK(p.getUptime() == f.cm.uptime && p.getGmIdentity() == f.cm.gmIdentity && p.getGmClockQuality() == f.cm.gmClockQuality &&
                 p.getCurrentUtcOffset() == f.cm.currentUtcOffset && p.getTimeSource() == f.cm.timeSource && p.getDomainNumber() == f.cm.domainNumber &&
                 p.getGptpFlags() == f.cm.gptpFlags,
             "capture-module header fields set earlier are not preserved");
    return Verdict::pass();
}
static Verdict checkContent(const lib::InterfacePayload& p, const RecipeFields& f, const Bytes& raw)
{
    VF_TRY(bytesEqual(p.getStreamIds(), p.getStreamIdsCount(), f.streamIds, "stream ids"));
    VF_TRY(bytesEqual(p.getVendorData(), p.getVendorDataLength(), f.vendor, "IF vendor data"));
    wire::IfVar v;
    VF_CHECK(wire::walkIf(raw.data(), raw.size(), v), "stream-id list / vendor data do not fit the payload of " << raw.size() << " bytes");
    VF_CHECK(v.end == raw.size(), "payload has " << raw.size() - v.end << " bytes after the vendor data");
    VF_CHECK(v.idsLen == f.streamIds.size() && v.vendorLen == f.vendor.size(), "raw list lengths " << v.idsLen << "/" << v.vendorLen);
    if (v.idsLen % 2)
        VF_CHECK(raw[v.idsOff + v.idsLen] == 0, "the pad byte after the odd-length stream-id list is 0x" << std::hex << int(raw[v.idsOff + v.idsLen]) << ", not zero");
    VF_CHECK((f.streamIds.empty() || memcmp(raw.data() + v.idsOff, f.streamIds.data(), f.streamIds.size()) == 0) &&
                 (f.vendor.empty() || memcmp(raw.data() + v.vendorOff, f.vendor.data(), f.vendor.size()) == 0),
             "raw stream ids / vendor data differ");
    auto h = wire::parseIfHeader(raw.data());
    VF_CHECK(h.interfaceId == f.ifs.interfaceId && h.msgTotalRx == f.ifs.msgTotalRx && h.msgTotalTx == f.ifs.msgTotalTx && h.msgDroppedRx == f.ifs.msgDroppedRx &&
                 h.msgDroppedTx == f.ifs.msgDroppedTx && h.errorsTotalRx == f.ifs.errorsTotalRx && h.errorsTotalTx == f.ifs.errorsTotalTx &&
                 h.interfaceType == f.ifs.interfaceType && h.interfaceStatus == f.ifs.interfaceStatus && h.featureSupportBitmask == f.ifs.featureSupportBitmask && h.reserved == 0,
             "interface raw header differs from the values set");
    VF_CHECK(p.getInterfaceId() == f.ifs.interfaceId && p.getMsgTotalRx() == f.ifs.msgTotalRx && p.getErrorsTotalTx() == f.ifs.errorsTotalTx &&
                 p.getFeatureSupportBitmask() == f.ifs.featureSupportBitmask && static_cast<uint8_t>(p.getInterfaceStatus()) == f.ifs.interfaceStatus,
             "interface header fields set earlier are not preserved");
    return Verdict::pass();
}

template <class P>
static P initialObject(const Case& c)
{
    if (!c.fromRaw)
        return P();
    // prior state from raw bytes: the content of rawStep laid out by the independent builders, plus slack bytes
    PacketRecipe r;
    static const uint8_t kinds[] = {rkCan, rkCanFd, rkLin, rkEthernet, rkAnalog, rkCmStatus, rkIfStatus};
    r.kind = kinds[c.cls % 7];
    RecipeFields f = fieldsFor(c.cls, c.rawStep);
    Bytes b = oracleBytes(r, f);
    Bytes slack = fillBytes(c.rawStep.seed ^ 0x51ac, c.rawSlack);
    b.insert(b.end(), slack.begin(), slack.end());
    return P(b.data(), b.size());
}

template <class P>
static Verdict runOn(const Case& c, Info& info)
{
    P obj = initialObject<P>(c);
    if (c.fromRaw)
        info.tag(c.rawSlack ? "object_started_from_raw_bytes_with_slack" : "object_started_from_raw_bytes");
    bool hadOtherLength = false, oddList = false;
    for (size_t si = 0; si < c.history.size(); ++si)
    {
        const Step& s = c.history[si];
        RecipeFields f = fieldsFor(c.cls, s);
        applyStep(obj, f, s.headerFirst);
        // every intermediate state is read back through all getters too (getters must not leave state behind that a
        // later setData does not refresh); odd seeds skip the read so that both orders set-set-get and set-get-set occur
        if (s.seed % 2 == 0)
        {
            Bytes rawStep(obj.getRawPayload(), obj.getRawPayload() + obj.getLength());
            Verdict v = checkContent(obj, f, rawStep);
            if (!v.ok)
                return Verdict::fail("after history step " + std::to_string(si) + ": " + v.why);
            ViewStats vs;
            VF_TRY(sweepAccessors(c.cls, obj, vs));
        }
        if (s.len != c.last.len || s.len2 != c.last.len2 || memcmp(s.strLen, c.last.strLen, sizeof(s.strLen)) != 0)
            hadOtherLength = true;
    }
    RecipeFields f = fieldsFor(c.cls, c.last);
    applyStep(obj, f, c.last.headerFirst);
    Bytes raw(obj.getRawPayload(), obj.getRawPayload() + obj.getLength());
    VF_TRY(checkContent(obj, f, raw));

    // the library's own validity check and decoder accept the result
    VF_CHECK(classValidates(c.cls, raw.data(), raw.size()), "isValidPayload rejects the payload the builder produced (" << raw.size() << " bytes)");
    if (raw.size() <= 65535)
    {
        Bytes frame;
        wire::CmpHdr h{1, 0, 9, classMsgType(c.cls), 2, 1};
        wire::putCmpHdr(frame, h);
        wire::MsgHdr mh;
        mh.payloadType = classPayloadType(c.cls);
        mh.length = static_cast<uint16_t>(raw.size());
        wire::putMsgHdr(frame, mh);
        wire::putBytes(frame, raw);
        lib::Decoder dec;
        auto got = decodeOwned(dec, frame);
        VF_CHECK(got.size() == 1 && got[0], "a frame built around the payload decodes to " << got.size() << " packets");
        Snap g = snap(*got[0]);
        VF_CHECK(g.valid, "the decoder marks the built payload invalid");
        VF_CHECK(g.payload == raw && g.type32 == ((static_cast<uint32_t>(classMsgType(c.cls)) << 8) | classPayloadType(c.cls)), "decoded payload differs from the built one");
        ViewStats vs;
        VF_TRY(sweepPacket(*got[0], vs));
    }
    // metamorphic: raw bytes depend only on the final logical content
    P fresh;
    applyStep(fresh, f, true);
    Bytes freshRaw(fresh.getRawPayload(), fresh.getRawPayload() + fresh.getLength());
    if (raw != freshRaw)
    {
        size_t at = 0;
        while (at < raw.size() && at < freshRaw.size() && raw[at] == freshRaw[at])
            ++at;
        VF_CHECK(raw == freshRaw, "raw bytes depend on what the object held before: byte " << at << " is 0x" << std::hex << (at < raw.size() ? int(raw[at]) : -1)
                                                                                        << " after the history, 0x" << (at < freshRaw.size() ? int(freshRaw[at]) : -1)
                                                                                        << " in a fresh object (lengths " << std::dec << raw.size() << "/" << freshRaw.size() << ")");
    }
    if (c.cls == pcIf)
        oddList = f.streamIds.size() % 2;
    if (c.cls == pcCm)
        for (int i = 0; i < 4; ++i)
            oddList = oddList || (f.str[i].size() % 2 == 0);  // even string length -> NUL + pad byte
    info.tag(std::string("class_") + className(c.cls));
    if (hadOtherLength)
        info.tag("object_held_data_of_another_length_before");
    if (oddList)
        info.tag("odd_length_list_or_padded_string");
    info.nontrivial = hadOtherLength || oddList || c.fromRaw;
    return Verdict::pass();
}

static Verdict runCase(const Case& c, Info& info)
{
    switch (c.cls % 7)
    {
        case pcCan:
            return runOn<lib::CanPayload>(c, info);
        case pcCanFd:
            return runOn<lib::CanFdPayload>(c, info);
        case pcLin:
            return runOn<lib::LinPayload>(c, info);
        case pcEthernet:
            return runOn<lib::EthernetPayload>(c, info);
        case pcAnalog:
            return runOn<lib::AnalogPayload>(c, info);
        case pcCm:
            return runOn<lib::CaptureModulePayload>(c, info);
        default:
            return runOn<lib::InterfacePayload>(c, info);
    }
}

static uint32_t maxLenOf(uint8_t cls)
{
    switch (cls)
    {
        case pcCan:
        case pcCanFd:
        case pcLin:
            return 255;
        case pcEthernet:
            return 65529;
        case pcAnalog:
            return 65519;
        default:
            return 300;
    }
}

static rc::Gen<Step> genStep(uint8_t cls, int tier)
{
    return rc::gen::exec([cls, tier]() {
        Step s;
        s.seed = *rc::gen::arbitrary<uint32_t>();
        uint32_t mx = maxLenOf(cls);
        s.len = *rc::gen::weightedOneOf<uint32_t>({{1, rc::gen::just<uint32_t>(0)},
                                                   {5, range<uint32_t>(0, std::min<uint32_t>(mx, 70))},
                                                   {3, range<uint32_t>(0, std::min<uint32_t>(mx, 300))},
                                                   {1, range<uint32_t>(mx > 20 ? mx - 20 : 0, mx)},
                                                   {1, range<uint32_t>(0, mx)}});
        s.len2 = *rc::gen::weightedOneOf<uint32_t>({{1, rc::gen::just<uint32_t>(0)}, {4, range<uint32_t>(0, 20)}, {2, range<uint32_t>(0, 300)}});
        for (int i = 0; i < 4; ++i)
            s.strLen[i] = *rc::gen::weightedOneOf<uint16_t>({{1, rc::gen::just<uint16_t>(0)}, {5, range<uint16_t>(0, 12)}, {2, range<uint16_t>(0, tier ? 1000 : 300)}});
        s.headerFirst = *rc::gen::weightedElement<uint8_t>({{3, 1}, {1, 0}});
        return s;
    });
}

static rc::Gen<Case> genCase(int tier)
{
    return rc::gen::exec([tier]() {
        Case c;
        c.cls = *range<uint8_t>(0, 6);
        int n = *rc::gen::weightedOneOf<int>({{1, rc::gen::just(0)}, {4, range<int>(1, 3)}, {1, range<int>(1, tier ? 8 : 5)}});
        for (int i = 0; i < n; ++i)
            c.history.push_back(*genStep(c.cls, tier));
        c.last = *genStep(c.cls, tier);
        c.last.headerFirst = 1;
        if (*range<int>(0, 2) == 0)
        {
            c.fromRaw = 1;
            c.rawSlack = *rc::gen::weightedElement<uint8_t>({{2, 0}, {3, 1}, {2, 2}, {2, 8}, {1, 40}});
            c.rawStep = *genStep(c.cls, tier);
            // half of these: the first write has exactly the lengths the raw content has (nothing "changes" in size)
            if (*range<int>(0, 1) == 0)
            {
                Step& first = c.history.empty() ? c.last : c.history.front();
                // ... the declared length, or the physical size (declared length + slack: the buffer keeps its size)
                first.len = c.rawStep.len + (*range<int>(0, 1) ? c.rawSlack : 0u);
                first.len2 = c.rawStep.len2;
                for (int i = 0; i < 4; ++i)
                    first.strLen[i] = c.rawStep.strLen[i];
            }
        }
        return c;
    });
}

static void enumerate(int tier, const std::function<bool(const Case&)>& emit)
{
    // CAN / CAN-FD / LIN: every data length after a longer and after a shorter history
    for (uint8_t cls : {uint8_t(pcCan), uint8_t(pcCanFd), uint8_t(pcLin)})
        for (uint32_t len = 0; len <= 255; ++len)
            for (int variant = 0; variant < 3; ++variant)
            {
                Case c;
                c.cls = cls;
                c.last.seed = len * 31 + cls;
                c.last.len = len;
                if (variant >= 1)
                {
                    Step h;
                    h.seed = len * 17 + 3;
                    h.len = variant == 1 ? std::min<uint32_t>(255, len + 9) : len / 2;
                    c.history.push_back(h);
                }
                if (!emit(c))
                    return;
            }
    // objects that start from raw bytes with slack; first write of exactly the same / another length
    for (uint8_t cls = 0; cls < 7; ++cls)
        for (uint32_t len = 0; len <= 24; ++len)
            for (uint8_t slack : {uint8_t(0), uint8_t(1), uint8_t(2), uint8_t(9)})
                for (int same = 0; same < 2; ++same)
                {
                    Case c;
                    c.cls = cls;
                    c.fromRaw = 1;
                    c.rawSlack = slack;
                    c.rawStep.seed = len * 3 + cls;
                    c.rawStep.len = len;
                    c.rawStep.len2 = len % 5;
                    for (int i = 0; i < 4; ++i)
                        c.rawStep.strLen[i] = static_cast<uint16_t>((len + static_cast<uint32_t>(i)) % 7);
                    c.last = c.rawStep;
                    c.last.seed = len * 5 + 1;
                    if (!same)
                        c.last.len = len + 3;
                    if (!emit(c))
                        return;
                }
    // Ethernet / analog: 0..300, boundaries, a few huge
    for (uint8_t cls : {uint8_t(pcEthernet), uint8_t(pcAnalog)})
    {
        std::vector<uint32_t> lens;
        for (uint32_t l = 0; l <= (tier ? 600u : 300u); ++l)
            lens.push_back(l);
        uint32_t mx = maxLenOf(cls);
        for (uint32_t l : {1000u, 1500u, 9000u, 32767u, 32768u, mx - 3, mx - 2, mx - 1, mx})
            lens.push_back(l);
        for (uint32_t len : lens)
        {
            Case c;
            c.cls = cls;
            c.last.seed = len * 13 + cls;
            c.last.len = len;
            Step h;
            h.seed = len + 99;
            h.len = len % 2 ? len + 40 : len / 3;
            h.len = std::min(h.len, mx);
            c.history.push_back(h);
            if (!emit(c))
                return;
        }
    }
    // capture-module strings: all parity combinations x short lengths, previous content longer / shorter
    for (int combo = 0; combo < 81; ++combo)
        for (uint32_t vlen : {0u, 1u, 2u, 7u})
            for (int prev = 0; prev < 3; ++prev)
            {
                Case c;
                c.cls = pcCm;
                int x = combo;
                for (int i = 0; i < 4; ++i)
                {
                    c.last.strLen[i] = static_cast<uint16_t>(x % 3 == 0 ? 0 : x % 3 == 1 ? 5 : 6);
                    x /= 3;
                }
                c.last.len2 = vlen;
                c.last.seed = static_cast<uint32_t>(combo * 7 + vlen);
                if (prev)
                {
                    Step h;
                    h.seed = 1234u + static_cast<uint32_t>(combo);
                    for (int i = 0; i < 4; ++i)
                        h.strLen[i] = static_cast<uint16_t>(prev == 1 ? c.last.strLen[i] + 3 : c.last.strLen[i] / 2);
                    h.len2 = prev == 1 ? vlen + 5 : 0;
                    c.history.push_back(h);
                }
                if (!emit(c))
                    return;
            }
    // interface status: stream-id lists and vendor data of every parity, after longer / shorter content
    for (uint32_t ids = 0; ids <= (tier ? 300u : 40u); ++ids)
        for (uint32_t vlen : {0u, 1u, 2u, 5u, 300u})
            for (int prev = 0; prev < 3; ++prev)
            {
                Case c;
                c.cls = pcIf;
                c.last.seed = ids * 11 + vlen;
                c.last.len = ids;
                c.last.len2 = vlen;
                if (prev)
                {
                    Step h;
                    h.seed = 777u + ids;
                    h.len = prev == 1 ? ids + 1 : ids / 2;
                    h.len2 = prev == 1 ? vlen + 3 : vlen / 2;
                    c.history.push_back(h);
                }
                if (!emit(c))
                    return;
            }
}

int main(int argc, char** argv)
{
    Property<Case> prop;
    prop.id = "C13";
    prop.gen = genCase;
    prop.run = runCase;
    prop.enumerate = enumerate;
    prop.enumerationIsExhaustive = true;
    prop.enumerationNote = "CAN / CAN-FD / LIN: every data length 0..255 on a fresh object, after longer and after shorter data; Ethernet / analog: "
                           "0..300 (thorough ..600) + boundaries up to the maximum; capture-module: all 81 length-parity combinations of the four "
                           "strings x vendor lengths x previous content; interface: stream-id lists 0..40 (thorough ..300) x vendor lengths x previous content";
    return pbtMain(argc, argv, prop);
}
