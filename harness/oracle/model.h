// Independent reference models (DESIGN.md sec. 3.1): frame walker, three-valued payload validators,
// reference reassembler, reference aggregation/segmentation layout.  No library header is included.
#pragma once

#include <algorithm>
#include <map>
#include <string>
#include <utility>
#include <vector>

#include "wire.h"

namespace model
{

using wire::Bytes;

// ---------------------------------------------------------------------------------------------------
// Frame walker
// ---------------------------------------------------------------------------------------------------
struct WalkedMessage
{
    size_t offset{0};  // of the message header inside the frame
    wire::MsgHdr hdr;
    size_t payloadOffset{0};
};
enum class WalkStop
{
    end,           // all bytes consumed by messages
    shortRest,     // 1..15 bytes left: no room for a message header
    overlong,      // declared payload length exceeds the rest of the frame
    errorFlag,     // error-in-payload bit set
    typeZero,      // payload type byte 0
    notCmp         // shorter than a frame header, or first byte 0 (TECMP)
};
struct WalkedFrame
{
    bool isCmp{false};
    wire::CmpHdr hdr;
    std::vector<WalkedMessage> messages;
    WalkStop stop{WalkStop::end};
    size_t restOffset{0};  // first byte not covered by a walked message
};

inline WalkedFrame walkFrame(const uint8_t* p, size_t n)
{
    WalkedFrame f;
    if (n < wire::kCmpHeader || p[0] == 0)
    {
        f.stop = WalkStop::notCmp;
        return f;
    }
    f.isCmp = true;
    f.hdr = wire::getCmpHdr(p);
    size_t o = wire::kCmpHeader;
    while (o < n)
    {
        size_t rest = n - o;
        if (rest < wire::kMsgHeader)
        {
            f.stop = WalkStop::shortRest;
            break;
        }
        wire::MsgHdr h = wire::getMsgHdr(p + o);
        if (h.length > rest - wire::kMsgHeader)
        {
            f.stop = WalkStop::overlong;
            break;
        }
        if (h.flags & wire::kFlagError)
        {
            f.stop = WalkStop::errorFlag;
            break;
        }
        if (h.payloadType == 0)
        {
            f.stop = WalkStop::typeZero;
            break;
        }
        WalkedMessage m;
        m.offset = o;
        m.hdr = h;
        m.payloadOffset = o + wire::kMsgHeader;
        f.messages.push_back(m);
        o += wire::kMsgHeader + h.length;
    }
    f.restOffset = o;
    return f;
}
inline WalkedFrame walkFrame(const Bytes& b)
{
    return walkFrame(b.data(), b.size());
}

// ---------------------------------------------------------------------------------------------------
// Three-valued payload judgement
// ---------------------------------------------------------------------------------------------------
enum class Judge
{
    wellFormed,     // must be returned valid, with type and bytes as on the wire
    mustBeInvalid,  // must be returned marked invalid
    dontCare        // the property text does not pin the outcome
};
enum class Kind
{
    generic,
    can,
    canFd,
    lin,
    analog,
    ethernet,
    cmStatus,
    ifStatus
};

inline Kind kindOf(uint8_t msgType, uint8_t payloadType)
{
    if (msgType == wire::kMtData)
    {
        switch (payloadType)
        {
            case wire::kPtCan:
                return Kind::can;
            case wire::kPtCanFd:
                return Kind::canFd;
            case wire::kPtLin:
                return Kind::lin;
            case wire::kPtAnalog:
                return Kind::analog;
            case wire::kPtEthernet:
                return Kind::ethernet;
        }
    }
    else if (msgType == wire::kMtStatus)
    {
        if (payloadType == wire::kPtCmStatus)
            return Kind::cmStatus;
        if (payloadType == wire::kPtIfStatus)
            return Kind::ifStatus;
    }
    return Kind::generic;
}

inline Judge judgePayload(uint8_t msgType, uint8_t payloadType, const uint8_t* p, size_t n)
{
    switch (kindOf(msgType, payloadType))
    {
        case Kind::generic:
            // untyped payloads have no inner structure; payload type 0 never reaches here (walker stops)
            return msgType != 0 ? Judge::wellFormed : Judge::dontCare;
        case Kind::can:
        case Kind::canFd:
        {
            if (n < wire::kCanHeader)
                return Judge::mustBeInvalid;
            auto f = wire::parseCan(p);
            if (f.flags & wire::kCanErrorFlags)
                return Judge::mustBeInvalid;
            if (f.dataLength > n - wire::kCanHeader)
                return Judge::mustBeInvalid;
            if (f.errorPosition != 0)
                return Judge::dontCare;
            if (f.dataLength != n - wire::kCanHeader)
                return Judge::dontCare;
            return Judge::wellFormed;
        }
        case Kind::lin:
        {
            if (n < wire::kLinHeader)
                return Judge::mustBeInvalid;
            auto f = wire::parseLin(p);
            if (f.dataLength > n - wire::kLinHeader)
                return Judge::mustBeInvalid;
            if (f.flags & 0x00FF)
                return Judge::dontCare;
            if (f.dataLength != n - wire::kLinHeader)
                return Judge::dontCare;
            return Judge::wellFormed;
        }
        case Kind::ethernet:
        {
            if (n < wire::kEthHeader)
                return Judge::mustBeInvalid;
            auto f = wire::parseEth(p);
            if (f.flags & wire::kEthHardErrorFlags)
                return Judge::mustBeInvalid;
            if (f.dataLength > n - wire::kEthHeader)
                return Judge::mustBeInvalid;
            if (f.flags & wire::kEthSoftFlags)
                return Judge::dontCare;
            if (f.dataLength != n - wire::kEthHeader)
                return Judge::dontCare;
            return Judge::wellFormed;
        }
        case Kind::analog:
        {
            if (n < wire::kAnalogHeader)
                return Judge::mustBeInvalid;
            auto f = wire::parseAnalog(p);
            unsigned dt = f.flags & 3;
            if (dt > 1)
                return Judge::dontCare;
            size_t sample = dt == 0 ? 2 : 4;
            if ((n - wire::kAnalogHeader) % sample)
                return Judge::dontCare;
            return Judge::wellFormed;
        }
        case Kind::cmStatus:
        {
            if (n < wire::kCmStatusHeader)
                return Judge::mustBeInvalid;
            wire::CmVar v;
            if (!wire::walkCm(p, n, v))
                return Judge::mustBeInvalid;
            return v.end == n ? Judge::wellFormed : Judge::dontCare;
        }
        case Kind::ifStatus:
        {
            if (n < wire::kIfStatusHeader)
                return Judge::mustBeInvalid;
            wire::IfVar v;
            bool fits = wire::walkIf(p, n, v);
            if (p[29] > 2)
                return fits ? Judge::dontCare : Judge::mustBeInvalid;
            if (!fits)
                return Judge::mustBeInvalid;
            return v.end == n ? Judge::wellFormed : Judge::dontCare;
        }
    }
    return Judge::dontCare;
}

// ---------------------------------------------------------------------------------------------------
// Reference reassembler (C05, C06, C17): semantics taken from the property statements
// ---------------------------------------------------------------------------------------------------
struct Delivered
{
    uint16_t device{0};
    uint8_t stream{0};
    uint8_t version{0};
    uint8_t msgType{0};
    wire::MsgHdr first;  // header fields of the unsegmented message / of the first segment
    Bytes payload;
    bool reassembled{false};
};

struct OpenMessage
{
    uint8_t version{0};
    uint8_t msgType{0};
    uint16_t nextSeq{0};
    wire::MsgHdr first;
    Bytes payload;
    size_t receivedSegmentBytes{0};  // sum over accepted segments of (16 + declared length)
};

using EndpointKey = std::pair<uint16_t, uint8_t>;

class Reassembler
{
public:
    std::map<EndpointKey, OpenMessage> open;

    // returns what a decoder must deliver for this buffer
    std::vector<Delivered> feed(const uint8_t* p, size_t n)
    {
        std::vector<Delivered> out;
        if (n < wire::kCmpHeader || p[0] == 0)
            return out;  // too short or TECMP: no effect on CMP endpoints
        wire::CmpHdr fh = wire::getCmpHdr(p);
        EndpointKey key{fh.device, fh.stream};
        size_t o = wire::kCmpHeader;
        while (o < n)
        {
            size_t rest = n - o;
            bool invalid = rest < wire::kMsgHeader;
            wire::MsgHdr h;
            if (!invalid)
            {
                h = wire::getMsgHdr(p + o);
                invalid = h.length > rest - wire::kMsgHeader || (h.flags & wire::kFlagError) || h.payloadType == 0;
            }
            if (invalid)
            {
                open.erase(key);
                break;
            }
            const uint8_t* pl = p + o + wire::kMsgHeader;
            uint8_t seg = h.seg();
            if (seg == wire::kSegNone)
            {
                open.erase(key);
                Delivered d;
                d.device = fh.device;
                d.stream = fh.stream;
                d.version = fh.version;
                d.msgType = fh.msgType;
                d.first = h;
                d.payload.assign(pl, pl + h.length);
                out.push_back(std::move(d));
                o += wire::kMsgHeader + h.length;
                continue;
            }
            if (seg == wire::kSegFirst)
            {
                OpenMessage m;
                m.version = fh.version;
                m.msgType = fh.msgType;
                m.nextSeq = static_cast<uint16_t>(fh.seq + 1);
                m.first = h;
                m.payload.assign(pl, pl + h.length);
                m.receivedSegmentBytes = wire::kMsgHeader + h.length;
                open[key] = std::move(m);
                break;
            }
            auto it = open.find(key);
            if (it == open.end() || it->second.version != fh.version || it->second.msgType != fh.msgType ||
                it->second.nextSeq != fh.seq)
            {
                open.erase(key);
                break;
            }
            OpenMessage& m = it->second;
            m.payload.insert(m.payload.end(), pl, pl + h.length);
            m.receivedSegmentBytes += wire::kMsgHeader + h.length;
            m.nextSeq = static_cast<uint16_t>(fh.seq + 1);
            if (seg == wire::kSegLast)
            {
                Delivered d;
                d.device = fh.device;
                d.stream = fh.stream;
                d.version = m.version;
                d.msgType = m.msgType;
                d.first = m.first;
                d.payload = std::move(m.payload);
                d.reassembled = true;
                out.push_back(std::move(d));
                open.erase(it);
            }
            break;
        }
        return out;
    }
    std::vector<Delivered> feed(const Bytes& b)
    {
        return feed(b.data(), b.size());
    }
};

// ---------------------------------------------------------------------------------------------------
// Reference layout model of the encoder (C08)
// ---------------------------------------------------------------------------------------------------
struct LayoutMessage
{
    size_t packet{0};
    uint8_t seg{0};
    size_t offset{0};  // offset of this chunk in the packet's payload
    size_t length{0};
};
struct LayoutFrame
{
    uint8_t msgType{0};
    std::vector<LayoutMessage> messages;
};
struct LayoutPacket
{
    uint8_t msgType{0};
    size_t length{0};
};

inline std::vector<LayoutFrame> referenceLayout(const std::vector<LayoutPacket>& batch, size_t maxBytes)
{
    std::vector<LayoutFrame> out;
    const size_t cap = maxBytes - wire::kCmpHeader;
    size_t left = 0;
    bool holdsSegment = false;
    for (size_t i = 0; i < batch.size(); ++i)
    {
        const LayoutPacket& p = batch[i];
        if (p.length == 0)
        {
            // a packet without payload bytes puts no message on the wire, but it is placed like any other packet: where a
            // 16-byte message would not be appended (other type, frame holds a segment, too little room) a new frame is opened
            bool append = !out.empty() && !holdsSegment && out.back().msgType == p.msgType && left >= wire::kMsgHeader;
            if (!append)
            {
                out.push_back({p.msgType, {}});
                left = cap;
                holdsSegment = false;
            }
            continue;
        }
        if (wire::kMsgHeader + p.length <= cap)
        {
            bool append = !out.empty() && !holdsSegment && out.back().msgType == p.msgType && left >= wire::kMsgHeader + p.length;
            if (!append)
            {
                out.push_back({p.msgType, {}});
                left = cap;
                holdsSegment = false;
            }
            out.back().messages.push_back({i, wire::kSegNone, 0, p.length});
            left -= wire::kMsgHeader + p.length;
        }
        else
        {
            size_t pos = 0;
            int k = 0;
            while (pos < p.length)
            {
                size_t chunk = std::min(cap - wire::kMsgHeader, p.length - pos);
                uint8_t seg = k == 0 ? wire::kSegFirst : (pos + chunk == p.length ? wire::kSegLast : wire::kSegMid);
                out.push_back({p.msgType, {{i, seg, pos, chunk}}});
                pos += chunk;
                ++k;
            }
            holdsSegment = true;
            left = 0;
        }
    }
    return out;
}

}  // namespace model
