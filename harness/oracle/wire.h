// Independent big-endian codec for ASAM CMP and TECMP wire structures (DESIGN.md sec. 3.1).
// This file includes NO header of the library under test.  Offsets are written from the ASAM CMP 1.0 layout
// (as also implemented by the Wireshark asam-cmp / tecmp dissectors) and were cross-checked against the real
// captures embedded in the repository's tests.
#pragma once

#include <cstdint>
#include <cstring>
#include <string>
#include <vector>

namespace wire
{

using Bytes = std::vector<uint8_t>;

inline void put8(Bytes& b, uint8_t v)
{
    b.push_back(v);
}
inline void put16(Bytes& b, uint16_t v)
{
    b.push_back(static_cast<uint8_t>(v >> 8));
    b.push_back(static_cast<uint8_t>(v));
}
inline void put32(Bytes& b, uint32_t v)
{
    for (int s = 24; s >= 0; s -= 8)
        b.push_back(static_cast<uint8_t>(v >> s));
}
inline void put64(Bytes& b, uint64_t v)
{
    for (int s = 56; s >= 0; s -= 8)
        b.push_back(static_cast<uint8_t>(v >> s));
}
inline void putBytes(Bytes& b, const Bytes& v)
{
    b.insert(b.end(), v.begin(), v.end());
}
inline void putBytes(Bytes& b, const uint8_t* p, size_t n)
{
    b.insert(b.end(), p, p + n);
}

inline uint8_t get8(const uint8_t* p)
{
    return p[0];
}
inline uint16_t get16(const uint8_t* p)
{
    return static_cast<uint16_t>((p[0] << 8) | p[1]);
}
inline uint32_t get32(const uint8_t* p)
{
    return (static_cast<uint32_t>(p[0]) << 24) | (static_cast<uint32_t>(p[1]) << 16) | (static_cast<uint32_t>(p[2]) << 8) |
           static_cast<uint32_t>(p[3]);
}
inline uint64_t get64(const uint8_t* p)
{
    return (static_cast<uint64_t>(get32(p)) << 32) | get32(p + 4);
}
inline void set16(uint8_t* p, uint16_t v)
{
    p[0] = static_cast<uint8_t>(v >> 8);
    p[1] = static_cast<uint8_t>(v);
}
inline void set32(uint8_t* p, uint32_t v)
{
    p[0] = static_cast<uint8_t>(v >> 24);
    p[1] = static_cast<uint8_t>(v >> 16);
    p[2] = static_cast<uint8_t>(v >> 8);
    p[3] = static_cast<uint8_t>(v);
}
inline void set64(uint8_t* p, uint64_t v)
{
    set32(p, static_cast<uint32_t>(v >> 32));
    set32(p + 4, static_cast<uint32_t>(v));
}
inline uint32_t floatBits(float f)
{
    uint32_t u;
    memcpy(&u, &f, 4);
    return u;
}
inline float bitsFloat(uint32_t u)
{
    float f;
    memcpy(&f, &u, 4);
    return f;
}

// ---------------------------------------------------------------------------------------------------
// Sizes of the standard's headers
// ---------------------------------------------------------------------------------------------------
constexpr size_t kCmpHeader = 8;
constexpr size_t kMsgHeader = 16;
constexpr size_t kCanHeader = 16;
constexpr size_t kLinHeader = 8;
constexpr size_t kEthHeader = 6;
constexpr size_t kAnalogHeader = 16;
constexpr size_t kCmStatusHeader = 26;
constexpr size_t kIfStatusHeader = 36;
constexpr size_t kTecmpHeader = 28;
constexpr size_t kTecmpCanHeader = 5;
constexpr size_t kTecmpLinHeader = 2;
constexpr size_t kTecmpStatusGeneric = 12;
constexpr size_t kTecmpCmVendorData = 24;
constexpr size_t kTecmpBusEntry = 12;

// CMP message types (frame header byte 4)
constexpr uint8_t kMtData = 0x01;
constexpr uint8_t kMtControl = 0x02;
constexpr uint8_t kMtStatus = 0x03;
constexpr uint8_t kMtVendor = 0xFF;

// payload type bytes
constexpr uint8_t kPtCan = 0x01;
constexpr uint8_t kPtCanFd = 0x02;
constexpr uint8_t kPtLin = 0x03;
constexpr uint8_t kPtAnalog = 0x07;
constexpr uint8_t kPtEthernet = 0x08;
constexpr uint8_t kPtCmStatus = 0x01;  // with message type status
constexpr uint8_t kPtIfStatus = 0x02;  // with message type status

// common flags
constexpr uint8_t kFlagSegMask = 0x0C;
constexpr uint8_t kFlagError = 0x40;
constexpr uint8_t kSegNone = 0, kSegFirst = 1, kSegMid = 2, kSegLast = 3;

// ---------------------------------------------------------------------------------------------------
// CMP frame header: version(1) reserved(1) deviceId(2) messageType(1) streamId(1) sequenceCounter(2)
// ---------------------------------------------------------------------------------------------------
struct CmpHdr
{
    uint8_t version{1};
    uint8_t reserved{0};
    uint16_t device{0};
    uint8_t msgType{kMtData};
    uint8_t stream{0};
    uint16_t seq{0};
};
inline void putCmpHdr(Bytes& b, const CmpHdr& h)
{
    put8(b, h.version);
    put8(b, h.reserved);
    put16(b, h.device);
    put8(b, h.msgType);
    put8(b, h.stream);
    put16(b, h.seq);
}
inline CmpHdr getCmpHdr(const uint8_t* p)
{
    CmpHdr h;
    h.version = p[0];
    h.reserved = p[1];
    h.device = get16(p + 2);
    h.msgType = p[4];
    h.stream = p[5];
    h.seq = get16(p + 6);
    return h;
}

// ---------------------------------------------------------------------------------------------------
// Message header: timestamp(8) interfaceId(4) | reserved(2)+vendorId(2)  flags(1) payloadType(1) payloadLength(2)
// ---------------------------------------------------------------------------------------------------
struct MsgHdr
{
    uint64_t timestamp{0};
    uint32_t idWord{0};  // bytes 8..11 as one big-endian word: interface id, or (reserved<<16)|vendorId
    uint8_t flags{0};
    uint8_t payloadType{0};
    uint16_t length{0};

    uint32_t interfaceId() const
    {
        return idWord;
    }
    uint16_t vendorId() const
    {
        return static_cast<uint16_t>(idWord & 0xFFFF);
    }
    uint8_t seg() const
    {
        return (flags >> 2) & 3;
    }
};
inline void putMsgHdr(Bytes& b, const MsgHdr& h)
{
    put64(b, h.timestamp);
    put32(b, h.idWord);
    put8(b, h.flags);
    put8(b, h.payloadType);
    put16(b, h.length);
}
inline MsgHdr getMsgHdr(const uint8_t* p)
{
    MsgHdr h;
    h.timestamp = get64(p);
    h.idWord = get32(p + 8);
    h.flags = p[12];
    h.payloadType = p[13];
    h.length = get16(p + 14);
    return h;
}

// ---------------------------------------------------------------------------------------------------
// Payload layouts (builders produce header + data; "declared" length fields may be overridden by callers)
// ---------------------------------------------------------------------------------------------------

// CAN / CAN-FD: flags(2) reserved(2) id(4: b31 IDE, b30 RTR/RRS, b29 rsvd, b28..0 id)
//               crc(4: CAN b31 crcSupport, b14..0 crc; CAN-FD b31 crcSupport, b30 sbcSupport, b24 sbcParity,
//                      b23..21 sbc, b20..0 crc) errorPosition(2) dlc(1) dataLength(1) data
struct CanFields
{
    uint16_t flags{0};
    uint16_t reserved{0};
    uint32_t idWord{0};
    uint32_t crcWord{0};
    uint16_t errorPosition{0};
    uint8_t dlc{0};
    uint8_t dataLength{0};
};
inline Bytes buildCan(const CanFields& f, const Bytes& data)
{
    Bytes b;
    put16(b, f.flags);
    put16(b, f.reserved);
    put32(b, f.idWord);
    put32(b, f.crcWord);
    put16(b, f.errorPosition);
    put8(b, f.dlc);
    put8(b, f.dataLength);
    putBytes(b, data);
    return b;
}
inline CanFields parseCan(const uint8_t* p)
{
    CanFields f;
    f.flags = get16(p);
    f.reserved = get16(p + 2);
    f.idWord = get32(p + 4);
    f.crcWord = get32(p + 8);
    f.errorPosition = get16(p + 12);
    f.dlc = p[14];
    f.dataLength = p[15];
    return f;
}
constexpr uint16_t kCanErrorFlags = 0x03FF;  // crc, ack, passive ack, active ack, ack del, form, stuff, crc del, eof, bit

inline uint8_t canDlcFor(uint8_t len, bool& defined)
{
    defined = true;
    if (len <= 8)
        return len;
    switch (len)
    {
        case 12:
            return 9;
        case 16:
            return 10;
        case 20:
            return 11;
        case 24:
            return 12;
        case 32:
            return 13;
        case 48:
            return 14;
        case 64:
            return 15;
    }
    defined = false;
    return 0;
}

// LIN: flags(2) reserved(2) pid(1: b7..6 parity, b5..0 id) reserved(1) checksum(1) dataLength(1) data
struct LinFields
{
    uint16_t flags{0};
    uint16_t reserved1{0};
    uint8_t pid{0};
    uint8_t reserved2{0};
    uint8_t checksum{0};
    uint8_t dataLength{0};
};
inline Bytes buildLin(const LinFields& f, const Bytes& data)
{
    Bytes b;
    put16(b, f.flags);
    put16(b, f.reserved1);
    put8(b, f.pid);
    put8(b, f.reserved2);
    put8(b, f.checksum);
    put8(b, f.dataLength);
    putBytes(b, data);
    return b;
}
inline LinFields parseLin(const uint8_t* p)
{
    LinFields f;
    f.flags = get16(p);
    f.reserved1 = get16(p + 2);
    f.pid = p[4];
    f.reserved2 = p[5];
    f.checksum = p[6];
    f.dataLength = p[7];
    return f;
}

// Ethernet: flags(2) reserved(2) dataLength(2) data
struct EthFields
{
    uint16_t flags{0};
    uint16_t reserved{0};
    uint16_t dataLength{0};
};
inline Bytes buildEth(const EthFields& f, const Bytes& data)
{
    Bytes b;
    put16(b, f.flags);
    put16(b, f.reserved);
    put16(b, f.dataLength);
    putBytes(b, data);
    return b;
}
inline EthFields parseEth(const uint8_t* p)
{
    EthFields f;
    f.flags = get16(p);
    f.reserved = get16(p + 2);
    f.dataLength = get16(p + 4);
    return f;
}
// error flags the library is documented (property C04) to treat as bus errors: fcs, collision, too long, phy
// plus frameShorterThan64b (0x0002); txPortDown (0x0004), truncated (0x0040) are "don't care" for the oracle.
constexpr uint16_t kEthHardErrorFlags = 0x0001 | 0x0008 | 0x0010 | 0x0020;
constexpr uint16_t kEthSoftFlags = 0x0002 | 0x0004 | 0x0040;

// Analog: flags(2: b1..0 sample_dt 0=int16 1=int32) reserved(1) unit(1) sampleInterval(f32) sampleOffset(f32)
//         sampleScalar(f32) samples
struct AnalogFields
{
    uint16_t flags{0};
    uint8_t reserved{0};
    uint8_t unit{0};
    uint32_t intervalBits{0};
    uint32_t offsetBits{0};
    uint32_t scalarBits{0};
};
inline Bytes buildAnalog(const AnalogFields& f, const Bytes& samples)
{
    Bytes b;
    put16(b, f.flags);
    put8(b, f.reserved);
    put8(b, f.unit);
    put32(b, f.intervalBits);
    put32(b, f.offsetBits);
    put32(b, f.scalarBits);
    putBytes(b, samples);
    return b;
}
inline AnalogFields parseAnalog(const uint8_t* p)
{
    AnalogFields f;
    f.flags = get16(p);
    f.reserved = p[2];
    f.unit = p[3];
    f.intervalBits = get32(p + 4);
    f.offsetBits = get32(p + 8);
    f.scalarBits = get32(p + 12);
    return f;
}

// Capture-module status: uptime(8) gmIdentity(8) gmClockQuality(4) currentUtcOffset(2) timeSource(1)
//   domainNumber(1) reserved(1) gptpFlags(1); then deviceDescription, serialNumber, hardwareVersion,
//   softwareVersion as len(2)+bytes (NUL terminated, padded to even), then vendorDataLength(2)+vendor data
struct CmFields
{
    uint64_t uptime{0};
    uint64_t gmIdentity{0};
    uint32_t gmClockQuality{0};
    uint16_t currentUtcOffset{0};
    uint8_t timeSource{0};
    uint8_t domainNumber{0};
    uint8_t reserved{0};
    uint8_t gptpFlags{0};
};
inline void putCmHeader(Bytes& b, const CmFields& f)
{
    put64(b, f.uptime);
    put64(b, f.gmIdentity);
    put32(b, f.gmClockQuality);
    put16(b, f.currentUtcOffset);
    put8(b, f.timeSource);
    put8(b, f.domainNumber);
    put8(b, f.reserved);
    put8(b, f.gptpFlags);
}
inline CmFields parseCmHeader(const uint8_t* p)
{
    CmFields f;
    f.uptime = get64(p);
    f.gmIdentity = get64(p + 8);
    f.gmClockQuality = get32(p + 16);
    f.currentUtcOffset = get16(p + 20);
    f.timeSource = p[22];
    f.domainNumber = p[23];
    f.reserved = p[24];
    f.gptpFlags = p[25];
    return f;
}
inline void putCmString(Bytes& b, const std::string& s)
{
    size_t len = s.size() + 1;
    if (len % 2)
        ++len;
    put16(b, static_cast<uint16_t>(len));
    b.insert(b.end(), s.begin(), s.end());
    for (size_t i = s.size(); i < len; ++i)
        b.push_back(0);
}
inline Bytes buildCm(const CmFields& f, const std::string& desc, const std::string& serial, const std::string& hw,
                     const std::string& sw, const Bytes& vendor)
{
    Bytes b;
    putCmHeader(b, f);
    putCmString(b, desc);
    putCmString(b, serial);
    putCmString(b, hw);
    putCmString(b, sw);
    put16(b, static_cast<uint16_t>(vendor.size()));
    putBytes(b, vendor);
    return b;
}
// walk the five length-prefixed fields; returns false if they do not fit into n bytes
struct CmVar
{
    size_t off[5]{};  // offset of the data of each field
    size_t len[5]{};
    size_t end{0};
};
inline bool walkCm(const uint8_t* p, size_t n, CmVar& v)
{
    size_t o = kCmStatusHeader;
    for (int i = 0; i < 5; ++i)
    {
        if (o + 2 > n)
            return false;
        size_t l = get16(p + o);
        o += 2;
        if (o + l > n)
            return false;
        v.off[i] = o;
        v.len[i] = l;
        o += l;
    }
    v.end = o;
    return true;
}

// Interface status: interfaceId(4) msgTotalRx(4) msgTotalTx(4) msgDroppedRx(4) msgDroppedTx(4) errorsTotalRx(4)
//   errorsTotalTx(4) interfaceType(1) interfaceStatus(1) reserved(2) featureSupportBitmask(4);
//   then streamIdsCount(2) + ids (+1 zero pad if odd) + vendorDataLength(2) + vendor data
struct IfFields
{
    uint32_t interfaceId{0};
    uint32_t msgTotalRx{0};
    uint32_t msgTotalTx{0};
    uint32_t msgDroppedRx{0};
    uint32_t msgDroppedTx{0};
    uint32_t errorsTotalRx{0};
    uint32_t errorsTotalTx{0};
    uint8_t interfaceType{0};
    uint8_t interfaceStatus{0};
    uint16_t reserved{0};
    uint32_t featureSupportBitmask{0};
};
inline void putIfHeader(Bytes& b, const IfFields& f)
{
    put32(b, f.interfaceId);
    put32(b, f.msgTotalRx);
    put32(b, f.msgTotalTx);
    put32(b, f.msgDroppedRx);
    put32(b, f.msgDroppedTx);
    put32(b, f.errorsTotalRx);
    put32(b, f.errorsTotalTx);
    put8(b, f.interfaceType);
    put8(b, f.interfaceStatus);
    put16(b, f.reserved);
    put32(b, f.featureSupportBitmask);
}
inline IfFields parseIfHeader(const uint8_t* p)
{
    IfFields f;
    f.interfaceId = get32(p);
    f.msgTotalRx = get32(p + 4);
    f.msgTotalTx = get32(p + 8);
    f.msgDroppedRx = get32(p + 12);
    f.msgDroppedTx = get32(p + 16);
    f.errorsTotalRx = get32(p + 20);
    f.errorsTotalTx = get32(p + 24);
    f.interfaceType = p[28];
    f.interfaceStatus = p[29];
    f.reserved = get16(p + 30);
    f.featureSupportBitmask = get32(p + 32);
    return f;
}
inline Bytes buildIf(const IfFields& f, const Bytes& streamIds, const Bytes& vendor)
{
    Bytes b;
    putIfHeader(b, f);
    put16(b, static_cast<uint16_t>(streamIds.size()));
    putBytes(b, streamIds);
    if (streamIds.size() % 2)
        b.push_back(0);
    put16(b, static_cast<uint16_t>(vendor.size()));
    putBytes(b, vendor);
    return b;
}
struct IfVar
{
    size_t idsOff{0}, idsLen{0}, vendorOff{0}, vendorLen{0}, end{0};
};
inline bool walkIf(const uint8_t* p, size_t n, IfVar& v)
{
    size_t o = kIfStatusHeader;
    if (o + 2 > n)
        return false;
    v.idsLen = get16(p + o);
    o += 2;
    v.idsOff = o;
    o += v.idsLen + (v.idsLen % 2);
    if (o + 2 > n)
        return false;
    v.vendorLen = get16(p + o);
    o += 2;
    v.vendorOff = o;
    o += v.vendorLen;
    if (o > n)
        return false;
    v.end = o;
    return true;
}

// ---------------------------------------------------------------------------------------------------
// Whole messages and frames
// ---------------------------------------------------------------------------------------------------
inline Bytes buildMessage(const MsgHdr& h, const Bytes& payload)
{
    Bytes b;
    putMsgHdr(b, h);
    putBytes(b, payload);
    return b;
}

// ---------------------------------------------------------------------------------------------------
// TECMP: header(28) = isTecmp/deviceIdHigh(1)=0 deviceId(1) counter(2) version(1) messageType(1) dataType(2)
//        reserved(2) deviceFlags(2) interfaceId(4) timestamp(8) payloadLength(2) dataFlags(2)
// ---------------------------------------------------------------------------------------------------
struct TecmpHdr
{
    uint8_t byte0{0};
    uint8_t device{0};
    uint16_t counter{0};
    uint8_t version{3};
    uint8_t msgType{3};
    uint16_t dataType{2};
    uint16_t reserved{0};
    uint16_t deviceFlags{0};
    uint32_t interfaceId{0};
    uint64_t timestamp{0};
    uint16_t payloadLength{0};
    uint16_t dataFlags{0};
};
constexpr uint8_t kTecmpMtControl = 0, kTecmpMtCmStatus = 1, kTecmpMtBusStatus = 2, kTecmpMtData = 3,
                  kTecmpMtConfigStatus = 4, kTecmpMtReplay = 0x0A;
constexpr uint16_t kTecmpDtCan = 2, kTecmpDtCanFd = 3, kTecmpDtLin = 4;

inline void putTecmpHdr(Bytes& b, const TecmpHdr& h)
{
    put8(b, h.byte0);
    put8(b, h.device);
    put16(b, h.counter);
    put8(b, h.version);
    put8(b, h.msgType);
    put16(b, h.dataType);
    put16(b, h.reserved);
    put16(b, h.deviceFlags);
    put32(b, h.interfaceId);
    put64(b, h.timestamp);
    put16(b, h.payloadLength);
    put16(b, h.dataFlags);
}
inline TecmpHdr getTecmpHdr(const uint8_t* p)
{
    TecmpHdr h;
    h.byte0 = p[0];
    h.device = p[1];
    h.counter = get16(p + 2);
    h.version = p[4];
    h.msgType = p[5];
    h.dataType = get16(p + 6);
    h.reserved = get16(p + 8);
    h.deviceFlags = get16(p + 10);
    h.interfaceId = get32(p + 12);
    h.timestamp = get64(p + 16);
    h.payloadLength = get16(p + 24);
    h.dataFlags = get16(p + 26);
    return h;
}

// TECMP CAN / CAN-FD payload: arbId(4, b31 = IDE) length(1) data [crc(3)]
inline Bytes buildTecmpCan(uint32_t arbId, uint8_t declaredLen, const Bytes& data, const Bytes& trailer)
{
    Bytes b;
    put32(b, arbId);
    put8(b, declaredLen);
    putBytes(b, data);
    putBytes(b, trailer);
    return b;
}
// TECMP LIN payload: pid(1) length(1) data [checksum(1)]
inline Bytes buildTecmpLin(uint8_t pid, uint8_t declaredLen, const Bytes& data, const Bytes& trailer)
{
    Bytes b;
    put8(b, pid);
    put8(b, declaredLen);
    putBytes(b, data);
    putBytes(b, trailer);
    return b;
}
// TECMP status generic part: vendorId(1) cmVersion(1) cmType(1) reserved(1) vendorDataLength(2) deviceId(2) serial(4)
struct TecmpStatusGeneric
{
    uint8_t vendorId{0};
    uint8_t cmVersion{0};
    uint8_t cmType{0};
    uint8_t reserved{0};
    uint16_t vendorDataLength{0};
    uint16_t deviceId{0};
    uint32_t serial{0};
};
inline void putTecmpGeneric(Bytes& b, const TecmpStatusGeneric& g)
{
    put8(b, g.vendorId);
    put8(b, g.cmVersion);
    put8(b, g.cmType);
    put8(b, g.reserved);
    put16(b, g.vendorDataLength);
    put16(b, g.deviceId);
    put32(b, g.serial);
}
// TECMP CM status vendor data (24): reserved(1) swMajor swMinor swPatch hwMajor hwMinor bufferFill(1) overflow(1)
//   bufferSize(4) lifecycle(8) voltageWhole(1) voltageFrac(1) chassisTemp(1) siliconTemp(1)
struct TecmpCmVendor
{
    uint8_t reserved{0}, swMajor{0}, swMinor{0}, swPatch{0}, hwMajor{0}, hwMinor{0}, bufferFill{0}, overflow{0};
    uint32_t bufferSize{0};
    uint64_t lifecycle{0};
    uint8_t voltWhole{0}, voltFrac{0}, chassisTemp{0}, siliconTemp{0};
};
inline void putTecmpCmVendor(Bytes& b, const TecmpCmVendor& v)
{
    put8(b, v.reserved);
    put8(b, v.swMajor);
    put8(b, v.swMinor);
    put8(b, v.swPatch);
    put8(b, v.hwMajor);
    put8(b, v.hwMinor);
    put8(b, v.bufferFill);
    put8(b, v.overflow);
    put32(b, v.bufferSize);
    put64(b, v.lifecycle);
    put8(b, v.voltWhole);
    put8(b, v.voltFrac);
    put8(b, v.chassisTemp);
    put8(b, v.siliconTemp);
}
struct TecmpBusEntry
{
    uint32_t interfaceId{0};
    uint32_t messagesTotal{0};
    uint32_t errorsTotal{0};
};
inline void putTecmpBusEntry(Bytes& b, const TecmpBusEntry& e)
{
    put32(b, e.interfaceId);
    put32(b, e.messagesTotal);
    put32(b, e.errorsTotal);
}

}  // namespace wire
