// libFuzzer target for C02: the input is decoded (structure-aware, forward reader) into a HISTORY of 1..8 buffers on one
// decoder - raw bytes, CMP frames built from field recipes (typed payload templates, segments, overridden lengths, trailing
// bytes, truncation) and TECMP frames - and the semantic oracle of harness/common/c02_oracle.h runs inside the target.
#include "fuzz_common.h"

using namespace vf;

static Bytes typedTemplate(uint8_t msgType, uint8_t ptype, uint32_t seed, uint32_t len)
{
    model::Kind k = model::kindOf(msgType, ptype);
    PacketRecipe r;
    switch (k)
    {
        case model::Kind::can:
            r.kind = rkCan;
            break;
        case model::Kind::canFd:
            r.kind = rkCanFd;
            break;
        case model::Kind::lin:
            r.kind = rkLin;
            break;
        case model::Kind::analog:
            r.kind = rkAnalog;
            break;
        case model::Kind::ethernet:
            r.kind = rkEthernet;
            break;
        case model::Kind::cmStatus:
            r.kind = rkCmStatus;
            break;
        case model::Kind::ifStatus:
            r.kind = rkIfStatus;
            break;
        default:
            return fillBytes(seed, len);
    }
    r.seed = seed;
    r.len = len;
    RecipeFields f = deriveFields(r);
    return oracleBytes(r, f);
}

static Bytes decodeCmp(fz::Reader& in, std::map<uint32_t, uint16_t>& nextSeq)
{
    static const uint16_t devs[] = {1, 2, 0x0102, 0xFFFF};
    static const uint8_t streams[] = {0, 7, 0xFF};
    static const uint8_t msgTypes[] = {1, 1, 1, 3, 3, 2, 0xFF, 0};
    static const uint8_t dataTypes[] = {1, 2, 3, 7, 8, 0x20, 0xFF, 0, 4, 9};
    static const uint8_t statusTypes[] = {1, 2, 3, 0xFF, 0, 0x20};
    wire::CmpHdr h;
    h.version = in.u8();
    if (h.version == 0)
        h.version = 1;
    h.device = devs[in.u8() % 4];
    h.stream = streams[in.u8() % 3];
    uint8_t mtSel = in.u8();
    h.msgType = (mtSel & 0x80) ? static_cast<uint8_t>(mtSel & 0x7F) : msgTypes[mtSel % 8];
    uint32_t key = (static_cast<uint32_t>(h.device) << 8) | h.stream;
    uint8_t sd = in.u8() % 8;
    uint16_t seq = nextSeq.count(key) ? nextSeq[key] : static_cast<uint16_t>(0xFFFD);
    if (sd == 6)
        seq = static_cast<uint16_t>(seq + 1);
    else if (sd == 7)
        seq = static_cast<uint16_t>(seq - 1);
    h.seq = seq;
    nextSeq[key] = static_cast<uint16_t>(seq + 1);
    Bytes b;
    wire::putCmpHdr(b, h);
    int nMsgs = in.u8() % 5;
    for (int i = 0; i < nMsgs; ++i)
    {
        wire::MsgHdr mh;
        uint8_t seg = in.u8() % 4;
        uint8_t ptSel = in.u8();
        if (ptSel & 0x80)
            mh.payloadType = static_cast<uint8_t>(ptSel & 0x7F);
        else if (h.msgType == 3)
            mh.payloadType = statusTypes[ptSel % 6];
        else
            mh.payloadType = dataTypes[ptSel % 10];
        uint8_t flags = in.u8();
        mh.flags = static_cast<uint8_t>((flags & ~0x0C) | (seg << 2));
        if ((flags & 0x40) && (in.u8() % 4))
            mh.flags &= ~0x40;  // the error bit ends the frame: keep it rare
        mh.timestamp = in.u8() * 0x0101010101010101ull;
        mh.idWord = in.u8() * 0x01010101u;
        Bytes payload;
        uint8_t pm = in.u8() % 3;
        if (pm == 0)
        {
            payload = typedTemplate(h.msgType, mh.payloadType, in.u8(), in.u8() % 48);
            int nPokes = in.u8() % 3;
            for (int k = 0; k < nPokes; ++k)
            {
                uint8_t off = in.u8(), val = in.u8();
                if (!payload.empty())
                    payload[off % std::min<size_t>(payload.size(), 64)] = val;
            }
        }
        else if (pm == 1)
            payload = in.bytes(in.u8() % 80);
        else
            payload = typedTemplate(h.msgType, mh.payloadType, in.u8(), in.u8());
        size_t declared = payload.size();
        uint8_t dm = in.u8() % 8;
        if (dm == 5)
            declared += 1 + in.u8() % 16;
        else if (dm == 6)
            declared -= std::min<size_t>(declared, 1 + in.u8() % 16);
        else if (dm == 7)
            declared = in.u16();
        mh.length = static_cast<uint16_t>(std::min<size_t>(declared, 65535));
        wire::putMsgHdr(b, mh);
        wire::putBytes(b, payload);
    }
    uint8_t trail = in.u8() % 32;
    if (trail >= 24)
        wire::putBytes(b, in.bytes(trail - 23));
    else if (trail >= 16)
        b.insert(b.end(), trail - 15, 0);
    uint8_t cut = in.u8();
    if (cut >= 200)
    {
        size_t at = (static_cast<size_t>(cut - 200) * 256 + in.u8()) % (b.size() + 1);
        b.resize(at);
    }
    return b;
}

static Bytes decodeTecmp(fz::Reader& in)
{
    static const uint8_t msgTypes[] = {3, 3, 3, 1, 2, 0, 4, 0x0A, 0xFF};
    static const uint16_t dataTypes[] = {2, 3, 4, 0, 8, 0x10, 0x20, 0x80, 0xFF, 0xFF00};
    TecmpRecipe r;
    r.device = in.u8();
    uint8_t mt = in.u8();
    r.msgType = (mt & 0x80) ? static_cast<uint8_t>(mt & 0x7F) : msgTypes[mt % 9];
    uint8_t dt = in.u8();
    r.dataType = (dt & 0x80) ? in.u16() : dataTypes[dt % 10];
    r.interfaceId = in.u8() * 0x01010101u;
    r.timestamp = in.u8() * 0x0101010101010101ull;
    r.seed = in.u8();
    r.kind = in.u8() % 5;
    switch (r.kind)
    {
        case 0:
            r.arbId = in.u32();
            r.data = in.bytes(in.u8() % 70);
            r.trailer = in.bytes(in.u8() % 5);
            if (in.u8() % 4 == 0)
                r.declaredLen = in.u8();
            break;
        case 1:
            r.pid = in.u8();
            r.data = in.bytes(in.u8() % 12);
            r.trailer = in.bytes(in.u8() % 3);
            if (in.u8() % 4 == 0)
                r.declaredLen = in.u8();
            break;
        case 2:
            r.trailer = in.bytes(in.u8() % 8);
            if (in.u8() % 4 == 0)
                r.vendorLen = in.u16();
            break;
        case 3:
            r.entries = in.u8() % 64;
            r.trailer = in.bytes(in.u8() % 12);
            if (in.u8() % 3 == 0)
                r.vendorLen = in.u16();
            break;
        default:
            r.data = in.bytes(in.u8() % 64);
            break;
    }
    uint8_t pl = in.u8() % 8;
    if (pl == 6)
        r.payloadLength = in.u8();
    else if (pl == 7)
        r.payloadLength = in.u16();
    Bytes b = r.build();
    uint8_t cut = in.u8();
    if (cut >= 200)
        b.resize((static_cast<size_t>(cut - 200) * 256 + in.u8()) % (b.size() + 1));
    return b;
}

static std::vector<Bytes> decodeInput(const uint8_t* data, size_t size)
{
    fz::Reader in(data, size);
    std::vector<Bytes> buffers;
    std::map<uint32_t, uint16_t> nextSeq;
    int n = 1 + in.u8() % 8;
    for (int i = 0; i < n && (i == 0 || !in.empty()); ++i)
    {
        switch (in.u8() % 4)
        {
            case 0:
                buffers.push_back(in.bytes(in.u16() % 4096));
                break;
            case 1:
                buffers.push_back(decodeCmp(in, nextSeq));
                break;
            case 2:
                buffers.push_back(decodeTecmp(in));
                break;
            default:
                buffers.push_back(in.bytes(in.u16()));
                break;
        }
    }
    return buffers;
}

static std::string describe(const std::vector<Bytes>& buffers)
{
    std::string s;
    for (const auto& b : buffers)
        s += (s.empty() ? "" : " | ") + (b.size() > 160 ? hexOf(b.data(), 160) + "...(" + std::to_string(b.size()) + " bytes)" : hexOf(b));
    return s;
}

// seed corpus: raw-mode inputs holding the well-formed seed frames (one per payload kind / TECMP kind, a segmented message)
static void writeCorpus(const char* dir)
{
    mkdir(dir, 0755);
    std::vector<std::vector<Bytes>> seeds;
    auto cmpFrame = [](uint8_t msgType, uint8_t ptype, uint8_t seg, uint16_t seq, uint32_t seed, uint32_t len, int nMsgs) {
        Bytes b;
        wire::CmpHdr h{1, 0, 0x0102, msgType, 7, seq};
        wire::putCmpHdr(b, h);
        for (int i = 0; i < nMsgs; ++i)
        {
            Bytes pl = typedTemplate(msgType, ptype, seed + static_cast<uint32_t>(i), len);
            wire::MsgHdr mh;
            mh.timestamp = 0x1122334455667788ull;
            mh.idWord = 0x00010203;
            mh.flags = static_cast<uint8_t>(0x03 | (seg << 2));
            mh.payloadType = ptype;
            mh.length = static_cast<uint16_t>(pl.size());
            wire::putMsgHdr(b, mh);
            wire::putBytes(b, pl);
        }
        return b;
    };
    for (uint8_t pt : {uint8_t(1), uint8_t(2), uint8_t(3), uint8_t(7), uint8_t(8), uint8_t(0x20)})
        seeds.push_back({cmpFrame(1, pt, 0, 5, 40u + pt, 6, 1 + pt % 2)});
    for (uint8_t pt : {uint8_t(1), uint8_t(2), uint8_t(0x30)})
        seeds.push_back({cmpFrame(3, pt, 0, 5, 50u + pt, 6, 1)});
    seeds.push_back({cmpFrame(1, 0x20, 1, 10, 1, 8, 1), cmpFrame(1, 0x20, 2, 11, 2, 8, 1), cmpFrame(1, 0x20, 3, 12, 3, 5, 1)});
    seeds.push_back({cmpFrame(1, 8, 1, 0xFFFF, 1, 8, 1), cmpFrame(1, 0x20, 0, 1, 9, 4, 2), cmpFrame(1, 8, 3, 0, 3, 5, 1)});
    for (int shape = 0; shape < 5; ++shape)
    {
        TecmpRecipe r;
        r.device = 0x43;
        r.interfaceId = 0x20;
        r.timestamp = 0x6114b53de0ull;
        r.seed = 5u + static_cast<uint32_t>(shape);
        switch (shape)
        {
            case 0:
                r.msgType = 3, r.dataType = 2, r.kind = 0, r.arbId = 0x7b, r.data = fillBytes(1, 8), r.trailer = fillBytes(2, 3);
                break;
            case 1:
                r.msgType = 3, r.dataType = 3, r.kind = 0, r.arbId = 0x9abcdef0, r.data = fillBytes(3, 16);
                break;
            case 2:
                r.msgType = 3, r.dataType = 4, r.kind = 1, r.pid = 0xAA, r.data = fillBytes(4, 5), r.trailer = {0x5c};
                break;
            case 3:
                r.msgType = 1, r.dataType = 0, r.kind = 2;
                break;
            case 4:
                r.msgType = 2, r.dataType = 0, r.kind = 3, r.entries = 2;
                break;
        }
        seeds.push_back({r.build()});
    }
    int idx = 0;
    for (const auto& hist : seeds)
    {
        fz::Writer w;
        w.u8(static_cast<uint8_t>(hist.size() - 1));
        for (const auto& b : hist)
        {
            w.u8(0);
            w.u16(static_cast<uint16_t>(b.size()));
            w.bytes(b);
        }
        char name[256];
        snprintf(name, sizeof(name), "%s/seed-%02d", dir, idx++);
        std::ofstream f(name, std::ios::binary);
        f.write(reinterpret_cast<const char*>(w.out.data()), static_cast<std::streamsize>(w.out.size()));
    }
}

extern "C" int LLVMFuzzerInitialize(int*, char***)
{
    if (const char* dir = getenv("VF_MAKE_CORPUS"))
    {
        writeCorpus(dir);
        exit(0);
    }
    fz::initCounters("fuzz_decode");
    return 0;
}

extern "C" int LLVMFuzzerTestOneInput(const uint8_t* data, size_t size)
{
    fz::initCounters("fuzz_decode");
    ++fz::counters().execs;
    std::vector<Bytes> buffers = decodeInput(data, size);
    HistoryStats hs;
    Verdict v = checkHistory(buffers, hs);
    if (!v.ok)
        fz::reportFailure(v.why + " | history: " + describe(buffers));
    auto& cls = fz::counters().classes;
    if (hs.packets)
        ++cls["returned_packets"];
    if (hs.pendingAfter)
        ++cls["left_pending_reassembly"];
    if (hs.tecmpPackets)
        ++cls["tecmp_conversion"];
    if (hs.validTyped)
        ++cls["valid_typed_packet_views_checked"];
    if (hs.reassembled)
        ++cls["reassembled_packet"];
    if (hs.packets || hs.pendingAfter || hs.tecmpPackets)
        fz::noteNontrivial(data, size, [&]() { return describe(buffers); });
    return 0;
}
