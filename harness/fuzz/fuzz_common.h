// Shared pieces of the libFuzzer targets: forward byte reader (structure-aware decode of the fuzz input), counters that
// are flushed to $VF_STATS at exit and before a trap, failure reporting.
#pragma once
#define VF_LIBFUZZER_TARGET 1

#include <sys/stat.h>

#include "../common/c02_oracle.h"

namespace fz
{

using vf::Bytes;

struct Reader
{
    const uint8_t* p;
    size_t n;
    size_t pos{0};
    Reader(const uint8_t* d, size_t s)
        : p(d)
        , n(s)
    {
    }
    bool empty() const
    {
        return pos >= n;
    }
    size_t left() const
    {
        return n - pos;
    }
    uint8_t u8()
    {
        return pos < n ? p[pos++] : 0;
    }
    uint16_t u16()
    {
        uint16_t h = u8();
        return static_cast<uint16_t>((h << 8) | u8());
    }
    uint32_t u32()
    {
        uint32_t h = u16();
        return (h << 16) | u16();
    }
    uint64_t u64()
    {
        uint64_t h = u32();
        return (h << 32) | u32();
    }
    Bytes bytes(size_t len)
    {
        len = std::min(len, left());
        Bytes b(p + pos, p + pos + len);
        pos += len;
        return b;
    }
};

struct Writer
{
    Bytes out;
    void u8(uint8_t v)
    {
        out.push_back(v);
    }
    void u16(uint16_t v)
    {
        out.push_back(static_cast<uint8_t>(v >> 8));
        out.push_back(static_cast<uint8_t>(v));
    }
    void bytes(const Bytes& b)
    {
        out.insert(out.end(), b.begin(), b.end());
    }
};

struct Counters
{
    uint64_t execs{0};
    uint64_t nontrivial{0};
    std::unordered_set<uint64_t> distinct;
    std::map<std::string, uint64_t> classes;
    std::vector<std::string> samples;
    std::string target;
    bool failed{false};
    std::string why;

    void flush() const
    {
        const char* path = getenv("VF_STATS");
        if (!path)
            return;
        std::ofstream f(path);
        f << "{\n \"stage\": \"" << target << "\",\n \"evaluations\": " << execs << ",\n \"nontrivial\": " << nontrivial
          << ",\n \"distinct_nontrivial\": " << distinct.size() << ",\n \"exhaustive\": false,\n \"failed\": " << (failed ? "true" : "false")
          << ",\n \"why\": \"" << vf::jsonEscape(why) << "\",\n \"classes\": {";
        bool first = true;
        for (const auto& kv : classes)
        {
            f << (first ? "" : ",") << "\n  \"" << vf::jsonEscape(kv.first) << "\": " << kv.second;
            first = false;
        }
        f << "\n },\n \"counters\": {},\n \"distinct_hashes\": [";
        first = true;
        size_t k = 0;
        for (uint64_t h : distinct)
        {
            if (++k > 200000)
                break;
            f << (first ? "" : ",") << "\"" << std::hex << h << std::dec << "\"";
            first = false;
        }
        f << "],\n \"samples\": [";
        first = true;
        for (const auto& s : samples)
        {
            f << (first ? "" : ",") << "\n  \"" << vf::jsonEscape(s) << "\"";
            first = false;
        }
        f << "\n ]\n}\n";
    }
};

inline Counters& counters()
{
    static Counters c;
    return c;
}

inline void flushAtExit()
{
    counters().flush();
}

extern "C" void __sanitizer_set_death_callback(void (*callback)(void)) __attribute__((weak));

inline void initCounters(const char* target)
{
    static bool done = false;
    if (done)
        return;
    done = true;
    counters().target = target;
    atexit(flushAtExit);
    if (__sanitizer_set_death_callback)
        __sanitizer_set_death_callback(flushAtExit);
}

inline void noteNontrivial(const uint8_t* data, size_t size, const std::function<std::string()>& describe)
{
    Counters& c = counters();
    ++c.nontrivial;
    if (c.distinct.size() < 3000000)
        c.distinct.insert(vf::fnv1a(data, size));
    if (c.samples.size() < 5 && (c.nontrivial % 97 == 1))
        c.samples.push_back(describe());
}

[[noreturn]] inline void reportFailure(const std::string& why)
{
    Counters& c = counters();
    c.failed = true;
    c.why = why;
    fprintf(stderr, "ORACLE-FAILURE: %s\n", why.c_str());
    c.flush();
    __builtin_trap();
}

}  // namespace fz
