// libFuzzer target for C03: byte 0 selects the typed payload class, byte 1 the path (class validator + constructor /
// message buffer -> Packet constructor / frame -> Decoder), the rest is the payload buffer.  Every accessor of an accepted
// payload is called and every reported view must lie inside the payload's own bytes (harness/common/views.h).
#include "fuzz_common.h"

using namespace vf;

template <class P>
static Verdict sweepConstructed(uint8_t cls, uint8_t* heap, size_t n, ViewStats& vs)
{
    P p(heap, n);
    free(heap);
    return sweepAccessors(cls, p, vs);
}

extern "C" int LLVMFuzzerInitialize(int*, char***)
{
    if (const char* dir = getenv("VF_MAKE_CORPUS"))
    {
        mkdir(dir, 0755);
        // one well-formed payload per class and path
        for (uint8_t cls = 0; cls < pcCount; ++cls)
            for (uint8_t path = 0; path < 3; ++path)
            {
                PacketRecipe r;
                static const uint8_t kinds[] = {rkCan, rkCanFd, rkLin, rkEthernet, rkAnalog, rkCmStatus, rkIfStatus};
                r.kind = kinds[cls];
                r.seed = 11u + cls;
                r.len = 9;
                RecipeFields f = deriveFields(r);
                Bytes b = oracleBytes(r, f);
                char name[256];
                snprintf(name, sizeof(name), "%s/seed-%d-%d", dir, cls, path);
                std::ofstream out(name, std::ios::binary);
                out.put(static_cast<char>(cls));
                out.put(static_cast<char>(path));
                out.write(reinterpret_cast<const char*>(b.data()), static_cast<std::streamsize>(b.size()));
            }
        exit(0);
    }
    fz::initCounters("fuzz_views");
    return 0;
}

extern "C" int LLVMFuzzerTestOneInput(const uint8_t* data, size_t size)
{
    fz::initCounters("fuzz_views");
    ++fz::counters().execs;
    if (size < 2)
        return 0;
    uint8_t cls = data[0] % pcCount;
    uint8_t path = data[1] % 3;
    const uint8_t* payload = data + 2;
    size_t n = size - 2;
    ViewStats vs;
    Verdict v = Verdict::pass();
    bool accepted = false;
    if (path == 0)
    {
        uint8_t* heap = static_cast<uint8_t*>(malloc(n ? n : 1));
        if (n)
            memcpy(heap, payload, n);
        if (classValidates(cls, heap, n))
        {
            accepted = true;
            switch (cls)
            {
                case pcCan:
                    v = sweepConstructed<lib::CanPayload>(cls, heap, n, vs);
                    break;
                case pcCanFd:
                    v = sweepConstructed<lib::CanFdPayload>(cls, heap, n, vs);
                    break;
                case pcLin:
                    v = sweepConstructed<lib::LinPayload>(cls, heap, n, vs);
                    break;
                case pcEthernet:
                    v = sweepConstructed<lib::EthernetPayload>(cls, heap, n, vs);
                    break;
                case pcAnalog:
                    v = sweepConstructed<lib::AnalogPayload>(cls, heap, n, vs);
                    break;
                case pcCm:
                    v = sweepConstructed<lib::CaptureModulePayload>(cls, heap, n, vs);
                    break;
                default:
                    v = sweepConstructed<lib::InterfacePayload>(cls, heap, n, vs);
                    break;
            }
        }
        else
            free(heap);
    }
    else
    {
        n = std::min<size_t>(n, 65535);
        wire::MsgHdr mh;
        mh.payloadType = classPayloadType(cls);
        mh.length = static_cast<uint16_t>(n);
        Bytes msg;
        wire::putMsgHdr(msg, mh);
        wire::putBytes(msg, payload, n);
        if (path == 1)
        {
            uint8_t* heap = static_cast<uint8_t*>(malloc(msg.size()));
            memcpy(heap, msg.data(), msg.size());
            if (lib::Packet::isValidPacket(heap, msg.size()))
            {
                lib::Packet p(static_cast<lib::CmpHeader::MessageType>(classMsgType(cls)), heap, msg.size());
                free(heap);
                v = sweepPacket(p, vs, &accepted);
            }
            else
                free(heap);
        }
        else
        {
            Bytes frame;
            wire::CmpHdr h{1, 0, 7, classMsgType(cls), 3, 1};
            wire::putCmpHdr(frame, h);
            wire::putBytes(frame, msg);
            lib::Decoder dec;
            for (const auto& p : decodeOwned(dec, frame))
            {
                bool typed = false;
                Verdict pv = sweepPacket(*p, vs, &typed);
                if (!pv.ok)
                    v = pv;
                accepted = accepted || typed;
            }
        }
    }
    if (!v.ok)
        fz::reportFailure(v.why + " | class " + className(cls) + " path " + std::to_string(path) + " payload " + hexOf(payload, std::min<size_t>(size - 2, 200)));
    auto& cl = fz::counters().classes;
    if (accepted)
    {
        ++cl[std::string("accepted_") + className(cls)];
        if (vs.nonEmptyViews || n <= classHeader(cls) + 8)
            fz::noteNontrivial(data, size, [&]() { return std::string(className(cls)) + " path " + std::to_string(path) + " payload " + hexOf(payload, std::min<size_t>(size - 2, 200)); });
    }
    else
        ++cl["rejected"];
    return 0;
}
