// Shared runner for the property drivers (see DESIGN.md sec. 3.2/3.3).
//
// A driver defines a plain-data Case struct with `void io(vf::Ar&)`, a rapidcheck generator for it and a pure
// `Verdict run(const Case&, Info&)` holding the oracle.  This header supplies: text (de)serialisation of
// cases, statistics (evaluations, class histogram, distinct non-trivial cases, samples), the rapidcheck
// loop with capture of the shrunk failing case, an optional fork-per-case mode (so that sanitizer aborts
// become ordinary, shrinkable failures), deterministic enumerations and `--replay` which bypasses rapidcheck.
#pragma once

#include <rapidcheck.h>

#include <fcntl.h>
#include <signal.h>
#include <sys/types.h>
#include <sys/wait.h>
#include <unistd.h>

#include <cinttypes>
#include <cstdint>
#include <cstdio>
#include <cstdlib>
#include <cstring>
#include <ctime>
#include <fstream>
#include <functional>
#include <iostream>
#include <map>
#include <set>
#include <sstream>
#include <string>
#include <unordered_set>
#include <vector>

namespace vf
{

using Bytes = std::vector<uint8_t>;

// ---------------------------------------------------------------------------------------------------
// Verdict + check macro
// ---------------------------------------------------------------------------------------------------
struct Verdict
{
    bool ok{true};
    std::string why;
    static Verdict pass()
    {
        return {};
    }
    static Verdict fail(std::string w)
    {
        Verdict v;
        v.ok = false;
        v.why = std::move(w);
        return v;
    }
};

#define VF_CHECK(cond, msg)                                                                                        \
    do                                                                                                             \
    {                                                                                                              \
        if (!(cond))                                                                                               \
        {                                                                                                          \
            std::ostringstream vf_os_;                                                                             \
            vf_os_ << msg << std::dec << "  [" #cond "] @" << __FILE__ << ":" << __LINE__;                                  \
            return ::vf::Verdict::fail(vf_os_.str());                                                              \
        }                                                                                                          \
    } while (0)

#define VF_TRY(expr)                                                                                               \
    do                                                                                                             \
    {                                                                                                              \
        ::vf::Verdict vf_v_ = (expr);                                                                              \
        if (!vf_v_.ok)                                                                                             \
            return vf_v_;                                                                                          \
    } while (0)

// Per-case information reported back by run(): class tags and the non-triviality flag.
struct Info
{
    std::set<std::string> tags;
    bool nontrivial{false};
    std::map<std::string, uint64_t> counters;  // extra additive counters
    void tag(const std::string& t)
    {
        tags.insert(t);
    }
    void count(const std::string& k, uint64_t n = 1)
    {
        counters[k] += n;
    }
};

// ---------------------------------------------------------------------------------------------------
// Archive: one io() function serialises and parses.  Format: one "name value" line per scalar.
// ---------------------------------------------------------------------------------------------------
inline std::string hexOf(const uint8_t* p, size_t n)
{
    static const char* d = "0123456789abcdef";
    if (n == 0)
        return "-";
    std::string s;
    s.reserve(2 * n);
    for (size_t i = 0; i < n; ++i)
    {
        s.push_back(d[p[i] >> 4]);
        s.push_back(d[p[i] & 15]);
    }
    return s;
}
inline std::string hexOf(const Bytes& b)
{
    return hexOf(b.data(), b.size());
}
inline bool unhex(const std::string& s, Bytes& out)
{
    out.clear();
    if (s == "-")
        return true;
    if (s.size() % 2)
        return false;
    auto val = [](char c) -> int {
        if (c >= '0' && c <= '9')
            return c - '0';
        if (c >= 'a' && c <= 'f')
            return c - 'a' + 10;
        if (c >= 'A' && c <= 'F')
            return c - 'A' + 10;
        return -1;
    };
    for (size_t i = 0; i < s.size(); i += 2)
    {
        int h = val(s[i]), l = val(s[i + 1]);
        if (h < 0 || l < 0)
            return false;
        out.push_back(static_cast<uint8_t>(h * 16 + l));
    }
    return true;
}

// Small deterministic generator for the structural mutator (seeded by libFuzzer's per-mutation seed; never used inside a property)
struct MutRng
{
    uint64_t s;
    explicit MutRng(uint64_t seed = 1)
        : s(seed * 0x9E3779B97F4A7C15ull + 0x2545F4914F6CDD1Dull)
    {
    }
    uint64_t next()
    {
        s ^= s << 13;
        s ^= s >> 7;
        s ^= s << 17;
        return s * 0x2545F4914F6CDD1Dull;
    }
    uint64_t below(uint64_t n)
    {
        return n ? (next() >> 11) % n : 0;
    }
};

class Ar
{
public:
    // TextW / TextR: the replay-file format.  BinW / BinR: fixed-width little-endian image of the same fields (the input format of the
    // coverage-guided mode, sec. 3.7 of DESIGN.md).  Visit: walks all fields and mutates the one whose running index is `target`.
    enum Mode
    {
        TextW,
        TextR,
        BinW,
        BinR,
        Visit
    };

    explicit Ar()
        : writing(true)
    {
    }
    explicit Ar(const std::string& text)
        : writing(false)
        , mode(TextR)
        , in(text)
    {
    }
    static Ar binWriter()
    {
        Ar a;
        a.mode = BinW;
        return a;
    }
    Ar(const uint8_t* data, size_t size)
        : writing(true)
        , mode(BinR)
        , binIn(data)
        , binSize(size)
    {
    }
    Ar(uint64_t targetSlot, MutRng* r)
        : writing(true)
        , mode(Visit)
        , target(targetSlot)
        , rng(r)
    {
    }

    bool writing;  // false only while parsing text (io() functions use it for fields that older replay files lack)
    Mode mode{TextW};
    bool ok{true};
    std::string err;
    Bytes bin;            // BinW output
    uint64_t slots{0};    // Visit: number of mutable places seen so far
    size_t elemBudget{60000};  // BinR: total number of vector elements one case may hold (bounds the work per fuzz input)

    std::string text() const
    {
        return out.str();
    }

    template <class T>
    void num(const char* name, T& v)
    {
        if (mode == BinW)
        {
            uint64_t x = static_cast<uint64_t>(v);
            for (size_t i = 0; i < sizeof(T); ++i)
                bin.push_back(static_cast<uint8_t>(x >> (8 * i)));
            return;
        }
        if (mode == BinR)
        {
            uint64_t x = 0;
            for (size_t i = 0; i < sizeof(T); ++i)
                x |= static_cast<uint64_t>(binPos < binSize ? binIn[binPos++] : 0) << (8 * i);
            v = static_cast<T>(x);
            return;
        }
        if (mode == Visit)
        {
            if (slots++ == target)
                mutateNum(v);
            return;
        }
        if (mode == TextW)
        {
            indent();
            if constexpr (std::is_signed<T>::value)
                out << name << " " << static_cast<long long>(v) << "\n";
            else
                out << name << " " << static_cast<unsigned long long>(v) << "\n";
        }
        else
        {
            std::string tok = next(name);
            if (!ok)
                return;
            try
            {
                if constexpr (std::is_signed<T>::value)
                    v = static_cast<T>(std::stoll(tok, nullptr, 0));
                else
                    v = static_cast<T>(std::stoull(tok, nullptr, 0));
            }
            catch (...)
            {
                bad(name);
            }
        }
    }

    void boolean(const char* name, bool& v)
    {
        int x = v ? 1 : 0;
        num(name, x);
        v = x != 0;
    }

    void bytes(const char* name, Bytes& v)
    {
        if (mode == BinW || mode == BinR)
        {
            uint16_t n = static_cast<uint16_t>(std::min<size_t>(v.size(), 65535));
            num(name, n);
            if (mode == BinW)
                bin.insert(bin.end(), v.begin(), v.begin() + n);
            else
            {
                size_t take = std::min<size_t>(n, binSize - binPos);
                v.assign(binIn + binPos, binIn + binPos + take);
                binPos += take;
            }
            return;
        }
        if (mode == Visit)
        {
            if (slots++ == target)
                mutateBytes(v);
            return;
        }
        if (mode == TextW)
        {
            indent();
            out << name << " " << hexOf(v) << "\n";
        }
        else
        {
            std::string tok = next(name);
            if (ok && !unhex(tok, v))
                bad(name);
        }
    }

    void str(const char* name, std::string& v)
    {
        Bytes b(v.begin(), v.end());
        bytes(name, b);
        if (mode != TextW && mode != BinW)
            v.assign(b.begin(), b.end());
    }

    template <class T>
    void vec(const char* name, std::vector<T>& v)
    {
        if (mode == BinW || mode == BinR || mode == Visit)
        {
            if (mode == Visit)
            {
                if (slots++ == target)
                    mutateVec(v);
            }
            else
            {
                uint16_t n16 = static_cast<uint16_t>(std::min<size_t>(v.size(), 65535));
                num(name, n16);
                if (mode == BinR)
                {
                    size_t n = binPos < binSize ? n16 : 0;  // nothing left to read: the vector ends here
                    n = std::min(n, elemBudget);
                    elemBudget -= n;
                    v.assign(n, T{});
                }
                else if (v.size() > n16)
                {
                    for (size_t i = 0; i < n16; ++i)
                        v[i].io(*this);
                    return;
                }
            }
            for (auto& e : v)
                e.io(*this);
            return;
        }
        size_t n = v.size();
        num(name, n);
        if (!ok)
            return;
        if (mode == TextR)
        {
            if (n > (1u << 24))
            {
                bad(name);
                return;
            }
            v.assign(n, T{});
        }
        ++depth;
        for (size_t i = 0; i < n && ok; ++i)
            v[i].io(*this);
        --depth;
    }

    // a scalar appended to a case format later on: absent -> keeps its default
    template <class T>
    void optionalNum(const char* name, T& v)
    {
        if (mode == TextR && peekName() != name)
            return;
        num(name, v);
    }

    std::string peekName()
    {
        std::streampos pos = in.tellg();
        std::string line, first;
        while (std::getline(in, line))
        {
            size_t p = line.find_first_not_of(" \t\r");
            if (p != std::string::npos && line[p] != '#')
            {
                std::istringstream ls(line);
                ls >> first;
                break;
            }
        }
        in.clear();
        in.seekg(pos);
        return first;
    }

    // a vector appended to a case format later on: if the next field is not `name` (or the input ends) the vector is
    // empty, so older replay files still parse
    template <class T>
    void optionalVec(const char* name, std::vector<T>& v)
    {
        if (mode == TextR)
        {
            std::streampos pos = in.tellg();
            std::string line, first;
            while (std::getline(in, line))
            {
                size_t p = line.find_first_not_of(" \t\r");
                if (p != std::string::npos && line[p] != '#')
                {
                    std::istringstream ls(line);
                    ls >> first;
                    break;
                }
            }
            in.clear();
            in.seekg(pos);
            if (first != name)
            {
                v.clear();
                return;
            }
        }
        vec(name, v);
    }

    template <class T>
    void numvec(const char* name, std::vector<T>& v)
    {
        if (mode == BinW || mode == BinR || mode == Visit)
        {
            if (mode == Visit)
            {
                if (slots++ == target)
                    mutateVec(v);
            }
            else
            {
                uint16_t n16 = static_cast<uint16_t>(std::min<size_t>(v.size(), 65535));
                num(name, n16);
                if (mode == BinR)
                {
                    size_t n = binPos < binSize ? n16 : 0;
                    n = std::min(n, elemBudget);
                    elemBudget -= n;
                    v.assign(n, T{});
                }
            }
            size_t lim = std::min<size_t>(v.size(), 65535);
            for (size_t i = 0; i < lim; ++i)
                num("-", v[i]);
            return;
        }
        size_t n = v.size();
        num(name, n);
        if (!ok)
            return;
        if (mode == TextR)
            v.assign(n, T{});
        ++depth;
        for (size_t i = 0; i < n && ok; ++i)
            num("-", v[i]);
        --depth;
    }

private:
    std::ostringstream out;
    std::istringstream in;
    int depth{0};
    const uint8_t* binIn{nullptr};
    size_t binSize{0};
    size_t binPos{0};
    uint64_t target{~0ull};
    MutRng* rng{nullptr};

    // --- structural mutations (coverage-guided mode only) ---
    template <class T>
    void mutateNum(T& v)
    {
        static const uint64_t special[] = {0,      1,      2,      3,      4,      7,       8,       15,      16,      23,         24,         25,         31,
                                           32,     40,     63,     64,     100,    127,     128,     255,     256,     257,        511,        512,        1000,
                                           1023,   1024,   1025,   1500,   2047,   2048,    4095,    4096,    4097,    8191,       8192,       16383,      16384,
                                           32767,  32768,  65495,  65511,  65519,  65520,   65529,   65534,   65535,   65536,      65537,      65559,      65560,
                                           100000, 131072, 999999999ull, 1000000000ull, 1000000001ull, 0x7FFFFFFFull, 0x80000000ull, 0xFFFFFFFEull, 0xFFFFFFFFull,
                                           0x100000000ull, 0x7FFFFFFFFFFFFFFFull, 0x8000000000000000ull, 0xFFFFFFFFFFFFFFFFull};
        using U = typename std::make_unsigned<T>::type;
        U u = static_cast<U>(v);
        const unsigned bits = sizeof(T) * 8;
        switch (rng->below(10))
        {
            case 0:
                u = static_cast<U>(u ^ (static_cast<U>(1) << rng->below(bits)));
                break;
            case 1:
                u = static_cast<U>(u + 1);
                break;
            case 2:
                u = static_cast<U>(u - 1);
                break;
            case 3:
            case 4:
                u = static_cast<U>(special[rng->below(sizeof(special) / sizeof(special[0]))]);
                break;
            case 5:
                u = static_cast<U>(rng->next());
                break;
            case 6:
                u = static_cast<U>(rng->below(17));
                break;
            case 7:
                u = static_cast<U>(rng->below(2) ? u + 1 + rng->below(32) : u - 1 - rng->below(32));
                break;
            case 8:
                u = static_cast<U>(rng->below(2) ? u * 2 : u / 2);
                break;
            default:
                u = static_cast<U>(special[rng->below(sizeof(special) / sizeof(special[0]))] + rng->below(3) - 1);
                break;
        }
        v = static_cast<T>(u);
    }
    void mutateBytes(Bytes& b)
    {
        switch (rng->below(5))
        {
            case 0:
                if (!b.empty())
                    b[rng->below(b.size())] ^= static_cast<uint8_t>(1u << rng->below(8));
                break;
            case 1:
                b.insert(b.begin() + static_cast<long>(rng->below(b.size() + 1)), static_cast<uint8_t>(rng->next()));
                break;
            case 2:
                if (!b.empty())
                    b.erase(b.begin() + static_cast<long>(rng->below(b.size())));
                break;
            case 3:
                if (!b.empty())
                    b[rng->below(b.size())] = static_cast<uint8_t>(rng->below(2) ? 0 : 0xFF);
                break;
            default:
                b.resize(rng->below(2) ? b.size() / 2 : std::min<size_t>(b.size() * 2 + 1, 4096), static_cast<uint8_t>(rng->next()));
                break;
        }
    }
    template <class E>
    void mutateVec(std::vector<E>& v)
    {
        const size_t n = v.size();
        switch (rng->below(7))
        {
            case 0:  // erase one
                if (n)
                    v.erase(v.begin() + static_cast<long>(rng->below(n)));
                break;
            case 1:  // duplicate one somewhere
                if (n)
                {
                    E e = v[rng->below(n)];
                    v.insert(v.begin() + static_cast<long>(rng->below(n + 1)), e);
                }
                else
                    v.push_back(E{});
                break;
            case 2:  // swap two
                if (n >= 2)
                    std::swap(v[rng->below(n)], v[rng->below(n)]);
                break;
            case 3:  // append a default element
                v.push_back(E{});
                break;
            case 4:  // repeat one element many times (long runs: counters, table sizes, thresholds)
                if (n && n < 20000)
                {
                    size_t i = rng->below(n);
                    static const size_t reps[] = {2, 3, 8, 16, 17, 64, 65, 255, 256, 257, 1024, 1025, 1030, 4097};
                    size_t k = reps[rng->below(sizeof(reps) / sizeof(reps[0]))];
                    E e = v[i];
                    v.insert(v.begin() + static_cast<long>(i), k, e);
                }
                break;
            case 5:  // truncate
                if (n)
                    v.resize(rng->below(n) + 1);
                break;
            default:  // move one element to another position
                if (n >= 2)
                {
                    size_t i = rng->below(n);
                    E e = v[i];
                    v.erase(v.begin() + static_cast<long>(i));
                    v.insert(v.begin() + static_cast<long>(rng->below(v.size() + 1)), e);
                }
                break;
        }
    }

    void indent()
    {
        for (int i = 0; i < depth; ++i)
            out << "  ";
    }
    void bad(const char* name)
    {
        ok = false;
        err = std::string("parse error at field ") + name;
    }
    std::string next(const char* name)
    {
        std::string line;
        while (std::getline(in, line))
        {
            size_t p = line.find_first_not_of(" \t\r");
            if (p == std::string::npos || line[p] == '#')
                continue;
            std::istringstream ls(line);
            std::string n, v;
            ls >> n >> v;
            if (n != name || v.empty())
            {
                ok = false;
                err = std::string("expected field ") + name + " got '" + line + "'";
                return "";
            }
            return v;
        }
        ok = false;
        err = std::string("unexpected end of case at field ") + name;
        return "";
    }
};

template <class Case>
std::string serialize(const Case& c)
{
    Ar a;
    const_cast<Case&>(c).io(a);
    return a.text();
}

template <class Case>
bool parse(const std::string& text, Case& c, std::string& err)
{
    Ar a(text);
    c.io(a);
    err = a.err;
    return a.ok;
}

inline uint64_t fnv1a(const std::string& s)
{
    uint64_t h = 1469598103934665603ull;
    for (unsigned char c : s)
    {
        h ^= c;
        h *= 1099511628211ull;
    }
    return h;
}
inline uint64_t fnv1a(const uint8_t* p, size_t n, uint64_t h = 1469598103934665603ull)
{
    for (size_t i = 0; i < n; ++i)
    {
        h ^= p[i];
        h *= 1099511628211ull;
    }
    return h;
}

// ---------------------------------------------------------------------------------------------------
// Statistics
// ---------------------------------------------------------------------------------------------------
inline std::string jsonEscape(const std::string& s)
{
    std::string o;
    for (unsigned char c : s)
    {
        switch (c)
        {
            case '"':
                o += "\\\"";
                break;
            case '\\':
                o += "\\\\";
                break;
            case '\n':
                o += "\\n";
                break;
            case '\t':
                o += "\\t";
                break;
            case '\r':
                o += "\\r";
                break;
            default:
                if (c < 0x20 || c >= 0x7f)
                {
                    char buf[8];
                    snprintf(buf, sizeof(buf), "\\u%04x", c);
                    o += buf;
                }
                else
                    o.push_back(static_cast<char>(c));
        }
    }
    return o;
}

struct Stats
{
    uint64_t evaluations{0};
    uint64_t nontrivial{0};
    std::unordered_set<uint64_t> distinctNontrivial;
    std::map<std::string, uint64_t> classes;
    std::map<std::string, uint64_t> counters;
    std::vector<std::string> samples;
    std::set<std::string> sampleTagsSeen;
    bool exhaustive{false};
    std::string note;

    // coverage-guided mode: the hash is taken from the binary image, the text is only produced when a sample is kept
    void recordLazy(uint64_t hash, const std::function<std::string()>& text, const Info& info)
    {
        ++evaluations;
        for (const auto& t : info.tags)
            ++classes[t];
        for (const auto& kv : info.counters)
            counters[kv.first] += kv.second;
        if (!info.nontrivial)
            return;
        ++nontrivial;
        if (distinctNontrivial.size() < 4000000)
            distinctNontrivial.insert(hash);
        std::string key;
        for (const auto& t : info.tags)
            key += t + ",";
        if (samples.size() < 6 && sampleTagsSeen.insert(key).second)
        {
            std::string s = text();
            samples.push_back(s.size() > 3000 ? s.substr(0, 3000) + "\n...(truncated)" : s);
        }
    }

    void record(const std::string& serialized, const Info& info)
    {
        ++evaluations;
        for (const auto& t : info.tags)
            ++classes[t];
        for (const auto& kv : info.counters)
            counters[kv.first] += kv.second;
        if (info.nontrivial)
        {
            ++nontrivial;
            distinctNontrivial.insert(fnv1a(serialized));
            // keep a sample whenever it shows a class combination not sampled yet (bounded)
            std::string key;
            for (const auto& t : info.tags)
                key += t + ",";
            if (samples.size() < 6 && sampleTagsSeen.insert(key).second)
                samples.push_back(serialized.size() > 3000 ? serialized.substr(0, 3000) + "\n...(truncated)" : serialized);
        }
        else if (samples.empty() && evaluations > 50)
        {
            samples.push_back(serialized.size() > 3000 ? serialized.substr(0, 3000) + "\n...(truncated)" : serialized);
        }
    }

    void writeJson(const std::string& path, const std::string& stage, bool failed, const std::string& failPath,
                   const std::string& why) const
    {
        std::ofstream f(path);
        f << "{\n \"stage\": \"" << jsonEscape(stage) << "\",\n";
        f << " \"evaluations\": " << evaluations << ",\n";
        f << " \"nontrivial\": " << nontrivial << ",\n";
        f << " \"distinct_nontrivial\": " << distinctNontrivial.size() << ",\n";
        f << " \"exhaustive\": " << (exhaustive ? "true" : "false") << ",\n";
        f << " \"failed\": " << (failed ? "true" : "false") << ",\n";
        f << " \"fail_path\": \"" << jsonEscape(failPath) << "\",\n";
        f << " \"why\": \"" << jsonEscape(why) << "\",\n";
        f << " \"note\": \"" << jsonEscape(note) << "\",\n";
        f << " \"classes\": {";
        bool first = true;
        for (const auto& kv : classes)
        {
            f << (first ? "" : ",") << "\n  \"" << jsonEscape(kv.first) << "\": " << kv.second;
            first = false;
        }
        f << "\n },\n \"counters\": {";
        first = true;
        for (const auto& kv : counters)
        {
            f << (first ? "" : ",") << "\n  \"" << jsonEscape(kv.first) << "\": " << kv.second;
            first = false;
        }
        f << "\n },\n \"distinct_hashes\": [";
        // hashes are exported so that the driver can count distinct cases across shards
        first = true;
        size_t n = 0;
        for (uint64_t h : distinctNontrivial)
        {
            if (++n > 200000)
                break;
            f << (first ? "" : ",") << "\"" << std::hex << h << std::dec << "\"";
            first = false;
        }
        f << "],\n \"samples\": [";
        first = true;
        for (const auto& s : samples)
        {
            f << (first ? "" : ",") << "\n  \"" << jsonEscape(s) << "\"";
            first = false;
        }
        f << "\n ]\n}\n";
    }
};

// ---------------------------------------------------------------------------------------------------
// Crash capture: sanitizer aborts bypass rapidcheck's shrinking and atexit, so the serialized current case is kept
// in a global and written to <faildir>/<id>-crash.case from the sanitizer death callback / SIGABRT handler.
// ---------------------------------------------------------------------------------------------------
extern "C" void __sanitizer_set_death_callback(void (*callback)(void)) __attribute__((weak));

inline std::string& currentCaseText()
{
    static std::string s;
    return s;
}
inline std::string& crashPath()
{
    static std::string s;
    return s;
}
inline void writeCrashCase()
{
    const std::string& path = crashPath();
    if (path.empty())
        return;
    int fd = open(path.c_str(), O_WRONLY | O_CREAT | O_TRUNC, 0644);
    if (fd < 0)
        return;
    const std::string& text = currentCaseText();
    const char* head = "# crashed while running this case\n";
    ssize_t r = write(fd, head, strlen(head));
    r = write(fd, text.data(), text.size());
    (void) r;
    close(fd);
}
inline void abortHandler(int sig)
{
    writeCrashCase();
    signal(sig, SIG_DFL);
    raise(sig);
}
inline void installCrashCapture(const std::string& failDir, const std::string& id)
{
    crashPath() = failDir + "/" + id + "-crash.case";
    if (__sanitizer_set_death_callback)
        __sanitizer_set_death_callback(writeCrashCase);
    signal(SIGABRT, abortHandler);
}

// ---------------------------------------------------------------------------------------------------
// Property definition and main loop
// ---------------------------------------------------------------------------------------------------
template <class Case>
struct Property
{
    std::string id;
    // rapidcheck generator, tier 0 = quick, 1 = thorough
    std::function<rc::Gen<Case>(int tier)> gen;
    // the oracle
    std::function<Verdict(const Case&, Info&)> run;
    // optional deterministic enumeration (boundary cases / bounded exhaustive); calls emit for every case and
    // stops as soon as emit returns false
    std::function<void(int tier, const std::function<bool(const Case&)>& emit)> enumerate;
    bool enumerationIsExhaustive{false};
    std::string enumerationNote;
    // coverage-guided mode (sec. 3.7): maps an arbitrary field image onto the input domain of the property (clamps, re-derives
    // dependent fields, bounds the work).  Must be idempotent and must leave every generated case unchanged in meaning.
    // A property without it has no coverage-guided stage.
    std::function<void(Case&)> normalize;
    // optional domain-aware mutation of the coverage-guided mode (used for a third of the mutations when present): relations between
    // elements that a field-wise mutator only finds by luck (a continuation that fits an earlier frame, ...)
    std::function<void(Case&, MutRng&)> smartMutate;
};

template <class Case>
Bytes toBin(const Case& c)
{
    Ar a = Ar::binWriter();
    const_cast<Case&>(c).io(a);
    return a.bin;
}
template <class Case>
void fromBin(const uint8_t* data, size_t size, Case& c)
{
    Ar a(data, size);
    c.io(a);
}
template <class Case>
void mutateCase(Case& c, MutRng& rng)
{
    Ar counter(~0ull, &rng);
    c.io(counter);
    if (!counter.slots)
        return;
    Ar m(rng.below(counter.slots), &rng);
    c.io(m);
}

struct Options
{
    std::string mode;  // run | enum | replay
    int tier{0};
    bool fork{false};
    std::string statsPath;
    std::string failDir{"."};
    std::vector<std::string> files;
    uint64_t maxEnum{0};  // 0 = unlimited
    std::string dumpDir;     // write every dumpEvery-th generated case to this directory (at most dumpMax)
    uint64_t dumpEvery{1};
    uint64_t dumpMax{0};
    uint64_t enumShard{0};   // enumeration sharding: this process handles cases with index % enumShards == enumShard
    uint64_t enumShards{1};
};

inline Options parseOptions(int argc, char** argv)
{
    Options o;
    for (int i = 1; i < argc; ++i)
    {
        std::string a = argv[i];
        auto val = [&]() -> std::string { return (i + 1 < argc) ? argv[++i] : ""; };
        if (a == "--run")
            o.mode = "run";
        else if (a == "--enum")
            o.mode = "enum";
        else if (a == "--replay")
            o.mode = "replay";
        else if (a == "--to-bin")
        {
            o.mode = "to-bin";
            o.dumpDir = val();
        }
        else if (a == "--from-bin")
            o.mode = "from-bin";
        else if (a == "--tier")
            o.tier = (val() == "thorough") ? 1 : 0;
        else if (a == "--fork")
            o.fork = true;
        else if (a == "--stats")
            o.statsPath = val();
        else if (a == "--faildir")
            o.failDir = val();
        else if (a == "--max-enum")
            o.maxEnum = std::stoull(val());
        else if (a == "--dump-dir")
            o.dumpDir = val();
        else if (a == "--dump-every")
            o.dumpEvery = std::max<uint64_t>(1, std::stoull(val()));
        else if (a == "--dump-max")
            o.dumpMax = std::stoull(val());
        else if (a == "--enum-shard")
        {
            std::string v = val();
            size_t slash = v.find('/');
            o.enumShard = std::stoull(v.substr(0, slash));
            o.enumShards = std::max<uint64_t>(1, std::stoull(v.substr(slash + 1)));
        }
        else
            o.files.push_back(a);
    }
    return o;
}

template <class Case>
Verdict execute(const Property<Case>& prop, const Case& c, Info& info, bool useFork)
{
    if (!useFork)
        return prop.run(c, info);

    fflush(stdout);
    fflush(stderr);
    int fds[2];
    if (pipe(fds) != 0)
        return prop.run(c, info);
    pid_t pid = fork();
    if (pid == 0)
    {
        close(fds[0]);
        Info childInfo;
        Verdict v = prop.run(c, childInfo);
        if (!v.ok)
        {
            std::string w = v.why.substr(0, 4000);
            ssize_t r = write(fds[1], w.data(), w.size());
            (void) r;
        }
        close(fds[1]);
        _exit(v.ok ? 0 : 3);
    }
    close(fds[1]);
    std::string why;
    char buf[512];
    ssize_t n;
    while ((n = read(fds[0], buf, sizeof(buf))) > 0)
        why.append(buf, static_cast<size_t>(n));
    close(fds[0]);
    int status = 0;
    waitpid(pid, &status, 0);
    if (WIFEXITED(status) && WEXITSTATUS(status) == 0)
        return Verdict::pass();
    if (WIFEXITED(status) && WEXITSTATUS(status) == 3)
        return Verdict::fail(why);
    std::ostringstream os;
    os << "child process died (sanitizer report or signal), wait status " << status;
    return Verdict::fail(os.str());
}

inline std::string writeFailure(const std::string& dir, const std::string& id, const std::string& serialized,
                                const std::string& why)
{
    char name[64];
    snprintf(name, sizeof(name), "%s-%016" PRIx64 ".case", id.c_str(), fnv1a(serialized));
    std::string path = dir + "/" + name;
    std::ofstream f(path);
    std::string w = why;
    for (auto& ch : w)
        if (ch == '\n' || static_cast<unsigned char>(ch) < 0x20 || static_cast<unsigned char>(ch) >= 0x7f)
            ch = ' ';
    f << "# property " << id << "\n# why: " << w << "\n" << serialized;
    return path;
}

#ifdef VF_CGF
// ---------------------------------------------------------------------------------------------------
// Coverage-guided mode: the same driver translation unit, built with -fsanitize=fuzzer -DVF_CGF -Dmain=vf_driver_main.  The fuzz
// input is the binary field image of a Case; LLVMFuzzerCustomMutator mutates it structurally (one field / one vector operation at a
// time, through the same io() functions), LLVMFuzzerTestOneInput normalises it into the property's domain and runs the same oracle.
// ---------------------------------------------------------------------------------------------------
struct CgfHooks
{
    std::function<int(const uint8_t*, size_t)> testOne;
    std::function<size_t(uint8_t*, size_t, size_t, unsigned)> mutate;
    std::function<void()> flush;
};
inline CgfHooks& cgfHooks()
{
    static CgfHooks h;
    return h;
}
extern "C" size_t LLVMFuzzerMutate(uint8_t* data, size_t size, size_t maxSize);

template <class Case>
int pbtMain(int, char**, const Property<Case>& propIn)
{
    static Property<Case> prop = propIn;
    static Stats stats;
    static std::string statsPath = getenv("VF_STATS") ? getenv("VF_STATS") : "";
    static std::string failDir = getenv("VF_FAILDIR") ? getenv("VF_FAILDIR") : ".";
    if (!prop.normalize)
    {
        fprintf(stderr, "this property has no normalize(): no coverage-guided mode\n");
        _exit(4);
    }
    cgfHooks().flush = []() {
        if (!statsPath.empty())
            stats.writeJson(statsPath, "cgf", false, "", "");
    };
    cgfHooks().testOne = [](const uint8_t* data, size_t size) -> int {
        Case c{};
        fromBin(data, size, c);
        prop.normalize(c);
        Info info;
        Verdict v = prop.run(c, info);
        {
            Bytes img = toBin(c);
            stats.recordLazy(fnv1a(img.data(), img.size()), [&c]() { return serialize(c); }, info);
        }
        if (!v.ok)
        {
            std::string text = serialize(c);
            std::string path = writeFailure(failDir, prop.id, text, v.why);
            std::string w = v.why;
            for (auto& ch : w)
                if (ch == '\n')
                    ch = ' ';
            printf("FAIL %s\n  why: %s\n", path.c_str(), w.c_str());
            fflush(stdout);
            cgfHooks().flush();
            abort();
        }
        return 0;
    };
    cgfHooks().mutate = [](uint8_t* data, size_t size, size_t maxSize, unsigned seed) -> size_t {
        MutRng rng(seed);
        if (rng.below(8) == 0)
            return LLVMFuzzerMutate(data, size, maxSize);  // libFuzzer's own byte-level mutations (incl. its compare-guided ones)
        Case c{};
        fromBin(data, size, c);
        int n = 1 + static_cast<int>(rng.below(4) == 0 ? rng.below(4) : 0);
        for (int i = 0; i < n; ++i)
        {
            if (prop.smartMutate && rng.below(3) == 0)
                prop.smartMutate(c, rng);
            else
                mutateCase(c, rng);
        }
        prop.normalize(c);
        Bytes b = toBin(c);
        if (b.empty() || b.size() > maxSize)
            return size;
        memcpy(data, b.data(), b.size());
        return b.size();
    };
    atexit([]() { cgfHooks().flush(); });
    return 0;
}
#else
template <class Case>
int pbtMain(int argc, char** argv, const Property<Case>& prop)
{
    Options opt = parseOptions(argc, argv);
    Stats stats;
    // a replayed file is its own reproduction: nothing is written next to the caller when it crashes
    if (opt.mode != "replay")
        installCrashCapture(opt.failDir, prop.id);

    if (opt.mode == "to-bin")
    {
        // text cases -> seed inputs of the coverage-guided stage (normalised first, so that the corpus lies inside the domain)
        int n = 0;
        for (const auto& file : opt.files)
        {
            std::ifstream f(file);
            std::stringstream ss;
            ss << f.rdbuf();
            Case c{};
            std::string err;
            if (!f || !parse(ss.str(), c, err))
                continue;
            if (prop.normalize)
                prop.normalize(c);
            Bytes b = toBin(c);
            char name[64];
            snprintf(name, sizeof(name), "/seed-%016" PRIx64, fnv1a(b.data(), b.size()));
            std::ofstream o(opt.dumpDir + name, std::ios::binary);
            o.write(reinterpret_cast<const char*>(b.data()), static_cast<std::streamsize>(b.size()));
            ++n;
        }
        printf("TO-BIN %d\n", n);
        return 0;
    }
    if (opt.mode == "from-bin")
    {
        // a libFuzzer artifact -> the text case it stands for (printed to stdout)
        for (const auto& file : opt.files)
        {
            std::ifstream f(file, std::ios::binary);
            std::stringstream ss;
            ss << f.rdbuf();
            std::string raw = ss.str();
            Case c{};
            fromBin(reinterpret_cast<const uint8_t*>(raw.data()), raw.size(), c);
            if (prop.normalize)
                prop.normalize(c);
            fputs(serialize(c).c_str(), stdout);
        }
        return 0;
    }

    if (opt.mode == "replay")
    {
        int failures = 0;
        for (const auto& file : opt.files)
        {
            std::ifstream f(file);
            if (!f)
            {
                printf("REPLAY-ERROR cannot open %s\n", file.c_str());
                return 2;
            }
            std::stringstream ss;
            ss << f.rdbuf();
            Case c{};
            std::string err;
            if (!parse(ss.str(), c, err))
            {
                printf("REPLAY-ERROR %s: %s\n", file.c_str(), err.c_str());
                return 2;
            }
            Info info;
            currentCaseText() = serialize(c);
            Verdict v = execute(prop, c, info, opt.fork);
            // schedule-dependent checks (C19): one replay executes the case up to VF_REPLAY_REPEAT times - a failure that needs a rare
            // interleaving is a sample; on a tree where the property holds no execution ever fails, however often it is repeated
            const int repeat = getenv("VF_REPLAY_REPEAT") ? atoi(getenv("VF_REPLAY_REPEAT")) : 1;
            for (int r = 1; r < repeat && v.ok; ++r)
            {
                Info again;
                v = execute(prop, c, again, opt.fork);
            }
            stats.record(currentCaseText(), info);
            if (v.ok)
                printf("REPLAY-PASS %s\n", file.c_str());
            else
            {
                printf("REPLAY-FAIL %s: %s\n", file.c_str(), v.why.c_str());
                ++failures;
            }
        }
        if (!opt.statsPath.empty())
            stats.writeJson(opt.statsPath, "replay", failures != 0, "", "");
        return failures ? 1 : 0;
    }

    if (opt.mode == "enum")
    {
        if (!prop.enumerate)
        {
            if (!opt.statsPath.empty())
                stats.writeJson(opt.statsPath, "enum", false, "", "");
            return 0;
        }
        bool failed = false;
        std::string failPath, why;
        uint64_t enumIndex = 0;
        prop.enumerate(opt.tier, [&](const Case& c) -> bool {
            if (enumIndex++ % opt.enumShards != opt.enumShard)
                return true;
            Info info;
            currentCaseText() = serialize(c);
            Verdict v = execute(prop, c, info, opt.fork);
            const std::string& s = currentCaseText();
            stats.record(s, info);
            if (!v.ok)
            {
                failed = true;
                why = v.why;
                failPath = writeFailure(opt.failDir, prop.id, s, v.why);
                return false;
            }
            if (opt.maxEnum && stats.evaluations >= opt.maxEnum)
                return false;
            return true;
        });
        stats.exhaustive = prop.enumerationIsExhaustive && !failed && !opt.maxEnum;
        stats.note = prop.enumerationNote;
        if (!opt.statsPath.empty())
            stats.writeJson(opt.statsPath, "enum", failed, failPath, why);
        if (failed)
        {
            printf("FAIL %s\n  why: %s\n", failPath.c_str(), why.c_str());
            return 1;
        }
        printf("ENUM-OK evaluations=%" PRIu64 " nontrivial=%zu\n", stats.evaluations, stats.distinctNontrivial.size());
        return 0;
    }

    // mode "run": rapidcheck loop
    std::string lastFailSerialized, lastFailWhy;
    bool haveFail = false;
    uint64_t dumped = 0;
    auto gen = prop.gen(opt.tier);
    // Shrinking is bounded: after the first failure at most 3000 further executions or 180 s are spent on making the case smaller; every
    // candidate after that is accepted as "passing" without being run, which ends rapidcheck's search with the smallest failing case
    // found so far (cases with thousands of frames or multi-threaded runs would otherwise shrink for hours).  This never affects a
    // verdict: the reported case is the last one that really failed, and it is confirmed by separate replays.
    uint64_t shrinkExecs = 0;
    time_t firstFailAt = 0;
    bool ok = rc::check(prop.id, [&]() {
        if (haveFail)
        {
            // checked before the candidate is even generated: re-generating a case of thousands of frames per candidate is the cost
            if (!firstFailAt)
                firstFailAt = time(nullptr);
            if (++shrinkExecs > 3000 || time(nullptr) - firstFailAt > 180)
                return;
        }
        Case c = *gen;
        Info info;
        currentCaseText() = serialize(c);
        Verdict v = execute(prop, c, info, opt.fork);
        if (!v.ok)
        {
            lastFailSerialized = currentCaseText();
            lastFailWhy = v.why;
            haveFail = true;
            RC_FAIL(v.why);
        }
        if (!haveFail)
        {
            stats.record(currentCaseText(), info);
            if (!opt.dumpDir.empty() && dumped < opt.dumpMax && stats.evaluations % opt.dumpEvery == 0 && info.nontrivial)
            {
                char name[64];
                snprintf(name, sizeof(name), "/dump-%06" PRIu64 ".case", dumped++);
                std::ofstream f(opt.dumpDir + name);
                f << currentCaseText();
            }
        }
    });
    std::string failPath;
    if (!ok && haveFail)
        failPath = writeFailure(opt.failDir, prop.id, lastFailSerialized, lastFailWhy);
    if (!opt.statsPath.empty())
        stats.writeJson(opt.statsPath, "run", !ok, failPath, lastFailWhy);
    if (!ok)
    {
        if (haveFail)
            printf("FAIL %s\n  why: %s\n", failPath.c_str(), lastFailWhy.c_str());
        else
            printf("GENERATOR-ERROR rapidcheck gave up or generator failed\n");
        return haveFail ? 1 : 2;
    }
    printf("RUN-OK evaluations=%" PRIu64 " nontrivial=%" PRIu64 " distinct_nontrivial=%zu\n", stats.evaluations,
           stats.nontrivial, stats.distinctNontrivial.size());
    return 0;
}
#endif  // VF_CGF

// ---------------------------------------------------------------------------------------------------
// Generator helpers
// ---------------------------------------------------------------------------------------------------
// inRange collapses at small sizes (see DESIGN sec. 8): always use the full size.
template <class T>
rc::Gen<T> range(T lo, T hiInclusive)
{
    using W = typename std::conditional<std::is_signed<T>::value, long long, unsigned long long>::type;
    return rc::gen::map(rc::gen::resize(1000, rc::gen::inRange<W>(static_cast<W>(lo), static_cast<W>(hiInclusive) + 1)),
                        [](W v) { return static_cast<T>(v); });
}

template <class T>
rc::Gen<T> anyInt()
{
    // mixture of boundary values and uniform bits
    return rc::gen::weightedOneOf<T>(
        {{1, rc::gen::element<T>(static_cast<T>(0), static_cast<T>(1), static_cast<T>(~static_cast<T>(0)),
                                 static_cast<T>(static_cast<T>(~static_cast<T>(0)) - 1),
                                 static_cast<T>(static_cast<T>(1) << (sizeof(T) * 8 - 1)))},
         {3, rc::gen::map(rc::gen::resize(1000, rc::gen::arbitrary<uint64_t>()), [](uint64_t v) { return static_cast<T>(v); })}});
}

inline rc::Gen<Bytes> bytesOfLen(size_t n)
{
    return rc::gen::container<Bytes>(n, rc::gen::arbitrary<uint8_t>());
}

// deterministic pseudo-random fill used to derive payload contents from a small seed (keeps cases small)
inline uint8_t fillByte(uint32_t seed, size_t j)
{
    uint32_t x = seed * 2654435761u + static_cast<uint32_t>(j) * 40503u + 0x9e3779b9u;
    x ^= x >> 15;
    x *= 2246822519u;
    x ^= x >> 13;
    return static_cast<uint8_t>(x);
}
inline Bytes fillBytes(uint32_t seed, size_t n)
{
    Bytes b(n);
    for (size_t j = 0; j < n; ++j)
        b[j] = fillByte(seed, j);
    return b;
}

}  // namespace vf

#ifdef VF_CGF
int vf_driver_main(int argc, char** argv);
extern "C" int LLVMFuzzerInitialize(int*, char***)
{
    char arg0[] = "driver";
    char* args[] = {arg0, nullptr};
    vf_driver_main(1, args);  // the driver's own main(): builds the Property and hands it to pbtMain, which registers the hooks
    return 0;
}
extern "C" int LLVMFuzzerTestOneInput(const uint8_t* data, size_t size)
{
    return vf::cgfHooks().testOne(data, size);
}
extern "C" size_t LLVMFuzzerCustomMutator(uint8_t* data, size_t size, size_t maxSize, unsigned int seed)
{
    return vf::cgfHooks().mutate(data, size, maxSize, seed);
}
#endif
