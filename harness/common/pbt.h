// Shared runner for the property drivers (see DESIGN.md sec. 3.2/3.3).
//
// A driver defines a plain-data Case struct with `void io(vf::Ar&)`, a rapidcheck generator for it and a pure
// `Verdict run(const Case&, Info&)` holding the oracle.  This header supplies: text (de)serialisation of
// cases, statistics (evaluations, class histogram, distinct non-trivial cases, samples), the rapidcheck
// loop with capture of the shrunk failing case, an optional fork-per-case mode (so that sanitizer aborts
// become ordinary, shrinkable failures), deterministic enumerations and `--replay` which bypasses rapidcheck.
#pragma once

#include <rapidcheck.h>

#include <fcntl.h>
#include <signal.h>
#include <sys/types.h>
#include <sys/wait.h>
#include <unistd.h>

#include <cinttypes>
#include <cstdint>
#include <cstdio>
#include <cstdlib>
#include <cstring>
#include <fstream>
#include <functional>
#include <iostream>
#include <map>
#include <set>
#include <sstream>
#include <string>
#include <unordered_set>
#include <vector>

namespace vf
{

using Bytes = std::vector<uint8_t>;

// ---------------------------------------------------------------------------------------------------
// Verdict + check macro
// ---------------------------------------------------------------------------------------------------
struct Verdict
{
    bool ok{true};
    std::string why;
    static Verdict pass()
    {
        return {};
    }
    static Verdict fail(std::string w)
    {
        Verdict v;
        v.ok = false;
        v.why = std::move(w);
        return v;
    }
};

#define VF_CHECK(cond, msg)                                                                                        \
    do                                                                                                             \
    {                                                                                                              \
        if (!(cond))                                                                                               \
        {                                                                                                          \
            std::ostringstream vf_os_;                                                                             \
            vf_os_ << msg << std::dec << "  [" #cond "] @" << __FILE__ << ":" << __LINE__;                                  \
            return ::vf::Verdict::fail(vf_os_.str());                                                              \
        }                                                                                                          \
    } while (0)

#define VF_TRY(expr)                                                                                               \
    do                                                                                                             \
    {                                                                                                              \
        ::vf::Verdict vf_v_ = (expr);                                                                              \
        if (!vf_v_.ok)                                                                                             \
            return vf_v_;                                                                                          \
    } while (0)

// Per-case information reported back by run(): class tags and the non-triviality flag.
struct Info
{
    std::set<std::string> tags;
    bool nontrivial{false};
    std::map<std::string, uint64_t> counters;  // extra additive counters
    void tag(const std::string& t)
    {
        tags.insert(t);
    }
    void count(const std::string& k, uint64_t n = 1)
    {
        counters[k] += n;
    }
};

// ---------------------------------------------------------------------------------------------------
// Archive: one io() function serialises and parses.  Format: one "name value" line per scalar.
// ---------------------------------------------------------------------------------------------------
inline std::string hexOf(const uint8_t* p, size_t n)
{
    static const char* d = "0123456789abcdef";
    if (n == 0)
        return "-";
    std::string s;
    s.reserve(2 * n);
    for (size_t i = 0; i < n; ++i)
    {
        s.push_back(d[p[i] >> 4]);
        s.push_back(d[p[i] & 15]);
    }
    return s;
}
inline std::string hexOf(const Bytes& b)
{
    return hexOf(b.data(), b.size());
}
inline bool unhex(const std::string& s, Bytes& out)
{
    out.clear();
    if (s == "-")
        return true;
    if (s.size() % 2)
        return false;
    auto val = [](char c) -> int {
        if (c >= '0' && c <= '9')
            return c - '0';
        if (c >= 'a' && c <= 'f')
            return c - 'a' + 10;
        if (c >= 'A' && c <= 'F')
            return c - 'A' + 10;
        return -1;
    };
    for (size_t i = 0; i < s.size(); i += 2)
    {
        int h = val(s[i]), l = val(s[i + 1]);
        if (h < 0 || l < 0)
            return false;
        out.push_back(static_cast<uint8_t>(h * 16 + l));
    }
    return true;
}

class Ar
{
public:
    explicit Ar()
        : writing(true)
    {
    }
    explicit Ar(const std::string& text)
        : writing(false)
        , in(text)
    {
    }

    bool writing;
    bool ok{true};
    std::string err;

    std::string text() const
    {
        return out.str();
    }

    template <class T>
    void num(const char* name, T& v)
    {
        if (writing)
        {
            indent();
            if constexpr (std::is_signed<T>::value)
                out << name << " " << static_cast<long long>(v) << "\n";
            else
                out << name << " " << static_cast<unsigned long long>(v) << "\n";
        }
        else
        {
            std::string tok = next(name);
            if (!ok)
                return;
            try
            {
                if constexpr (std::is_signed<T>::value)
                    v = static_cast<T>(std::stoll(tok, nullptr, 0));
                else
                    v = static_cast<T>(std::stoull(tok, nullptr, 0));
            }
            catch (...)
            {
                bad(name);
            }
        }
    }

    void boolean(const char* name, bool& v)
    {
        int x = v ? 1 : 0;
        num(name, x);
        v = x != 0;
    }

    void bytes(const char* name, Bytes& v)
    {
        if (writing)
        {
            indent();
            out << name << " " << hexOf(v) << "\n";
        }
        else
        {
            std::string tok = next(name);
            if (ok && !unhex(tok, v))
                bad(name);
        }
    }

    void str(const char* name, std::string& v)
    {
        Bytes b(v.begin(), v.end());
        bytes(name, b);
        if (!writing)
            v.assign(b.begin(), b.end());
    }

    template <class T>
    void vec(const char* name, std::vector<T>& v)
    {
        size_t n = v.size();
        num(name, n);
        if (!ok)
            return;
        if (!writing)
        {
            if (n > (1u << 24))
            {
                bad(name);
                return;
            }
            v.assign(n, T{});
        }
        ++depth;
        for (size_t i = 0; i < n && ok; ++i)
            v[i].io(*this);
        --depth;
    }

    // a scalar appended to a case format later on: absent -> keeps its default
    template <class T>
    void optionalNum(const char* name, T& v)
    {
        if (!writing && peekName() != name)
            return;
        num(name, v);
    }

    std::string peekName()
    {
        std::streampos pos = in.tellg();
        std::string line, first;
        while (std::getline(in, line))
        {
            size_t p = line.find_first_not_of(" \t\r");
            if (p != std::string::npos && line[p] != '#')
            {
                std::istringstream ls(line);
                ls >> first;
                break;
            }
        }
        in.clear();
        in.seekg(pos);
        return first;
    }

    // a vector appended to a case format later on: if the next field is not `name` (or the input ends) the vector is
    // empty, so older replay files still parse
    template <class T>
    void optionalVec(const char* name, std::vector<T>& v)
    {
        if (!writing)
        {
            std::streampos pos = in.tellg();
            std::string line, first;
            while (std::getline(in, line))
            {
                size_t p = line.find_first_not_of(" \t\r");
                if (p != std::string::npos && line[p] != '#')
                {
                    std::istringstream ls(line);
                    ls >> first;
                    break;
                }
            }
            in.clear();
            in.seekg(pos);
            if (first != name)
            {
                v.clear();
                return;
            }
        }
        vec(name, v);
    }

    template <class T>
    void numvec(const char* name, std::vector<T>& v)
    {
        size_t n = v.size();
        num(name, n);
        if (!ok)
            return;
        if (!writing)
            v.assign(n, T{});
        ++depth;
        for (size_t i = 0; i < n && ok; ++i)
            num("-", v[i]);
        --depth;
    }

private:
    std::ostringstream out;
    std::istringstream in;
    int depth{0};

    void indent()
    {
        for (int i = 0; i < depth; ++i)
            out << "  ";
    }
    void bad(const char* name)
    {
        ok = false;
        err = std::string("parse error at field ") + name;
    }
    std::string next(const char* name)
    {
        std::string line;
        while (std::getline(in, line))
        {
            size_t p = line.find_first_not_of(" \t\r");
            if (p == std::string::npos || line[p] == '#')
                continue;
            std::istringstream ls(line);
            std::string n, v;
            ls >> n >> v;
            if (n != name || v.empty())
            {
                ok = false;
                err = std::string("expected field ") + name + " got '" + line + "'";
                return "";
            }
            return v;
        }
        ok = false;
        err = std::string("unexpected end of case at field ") + name;
        return "";
    }
};

template <class Case>
std::string serialize(const Case& c)
{
    Ar a;
    const_cast<Case&>(c).io(a);
    return a.text();
}

template <class Case>
bool parse(const std::string& text, Case& c, std::string& err)
{
    Ar a(text);
    c.io(a);
    err = a.err;
    return a.ok;
}

inline uint64_t fnv1a(const std::string& s)
{
    uint64_t h = 1469598103934665603ull;
    for (unsigned char c : s)
    {
        h ^= c;
        h *= 1099511628211ull;
    }
    return h;
}
inline uint64_t fnv1a(const uint8_t* p, size_t n, uint64_t h = 1469598103934665603ull)
{
    for (size_t i = 0; i < n; ++i)
    {
        h ^= p[i];
        h *= 1099511628211ull;
    }
    return h;
}

// ---------------------------------------------------------------------------------------------------
// Statistics
// ---------------------------------------------------------------------------------------------------
inline std::string jsonEscape(const std::string& s)
{
    std::string o;
    for (unsigned char c : s)
    {
        switch (c)
        {
            case '"':
                o += "\\\"";
                break;
            case '\\':
                o += "\\\\";
                break;
            case '\n':
                o += "\\n";
                break;
            case '\t':
                o += "\\t";
                break;
            case '\r':
                o += "\\r";
                break;
            default:
                if (c < 0x20 || c >= 0x7f)
                {
                    char buf[8];
                    snprintf(buf, sizeof(buf), "\\u%04x", c);
                    o += buf;
                }
                else
                    o.push_back(static_cast<char>(c));
        }
    }
    return o;
}

struct Stats
{
    uint64_t evaluations{0};
    uint64_t nontrivial{0};
    std::unordered_set<uint64_t> distinctNontrivial;
    std::map<std::string, uint64_t> classes;
    std::map<std::string, uint64_t> counters;
    std::vector<std::string> samples;
    std::set<std::string> sampleTagsSeen;
    bool exhaustive{false};
    std::string note;

    void record(const std::string& serialized, const Info& info)
    {
        ++evaluations;
        for (const auto& t : info.tags)
            ++classes[t];
        for (const auto& kv : info.counters)
            counters[kv.first] += kv.second;
        if (info.nontrivial)
        {
            ++nontrivial;
            distinctNontrivial.insert(fnv1a(serialized));
            // keep a sample whenever it shows a class combination not sampled yet (bounded)
            std::string key;
            for (const auto& t : info.tags)
                key += t + ",";
            if (samples.size() < 6 && sampleTagsSeen.insert(key).second)
                samples.push_back(serialized.size() > 3000 ? serialized.substr(0, 3000) + "\n...(truncated)" : serialized);
        }
        else if (samples.empty() && evaluations > 50)
        {
            samples.push_back(serialized.size() > 3000 ? serialized.substr(0, 3000) + "\n...(truncated)" : serialized);
        }
    }

    void writeJson(const std::string& path, const std::string& stage, bool failed, const std::string& failPath,
                   const std::string& why) const
    {
        std::ofstream f(path);
        f << "{\n \"stage\": \"" << jsonEscape(stage) << "\",\n";
        f << " \"evaluations\": " << evaluations << ",\n";
        f << " \"nontrivial\": " << nontrivial << ",\n";
        f << " \"distinct_nontrivial\": " << distinctNontrivial.size() << ",\n";
        f << " \"exhaustive\": " << (exhaustive ? "true" : "false") << ",\n";
        f << " \"failed\": " << (failed ? "true" : "false") << ",\n";
        f << " \"fail_path\": \"" << jsonEscape(failPath) << "\",\n";
        f << " \"why\": \"" << jsonEscape(why) << "\",\n";
        f << " \"note\": \"" << jsonEscape(note) << "\",\n";
        f << " \"classes\": {";
        bool first = true;
        for (const auto& kv : classes)
        {
            f << (first ? "" : ",") << "\n  \"" << jsonEscape(kv.first) << "\": " << kv.second;
            first = false;
        }
        f << "\n },\n \"counters\": {";
        first = true;
        for (const auto& kv : counters)
        {
            f << (first ? "" : ",") << "\n  \"" << jsonEscape(kv.first) << "\": " << kv.second;
            first = false;
        }
        f << "\n },\n \"distinct_hashes\": [";
        // hashes are exported so that the driver can count distinct cases across shards
        first = true;
        size_t n = 0;
        for (uint64_t h : distinctNontrivial)
        {
            if (++n > 200000)
                break;
            f << (first ? "" : ",") << "\"" << std::hex << h << std::dec << "\"";
            first = false;
        }
        f << "],\n \"samples\": [";
        first = true;
        for (const auto& s : samples)
        {
            f << (first ? "" : ",") << "\n  \"" << jsonEscape(s) << "\"";
            first = false;
        }
        f << "\n ]\n}\n";
    }
};

// ---------------------------------------------------------------------------------------------------
// Crash capture: sanitizer aborts bypass rapidcheck's shrinking and atexit, so the serialized current case is kept
// in a global and written to <faildir>/<id>-crash.case from the sanitizer death callback / SIGABRT handler.
// ---------------------------------------------------------------------------------------------------
extern "C" void __sanitizer_set_death_callback(void (*callback)(void)) __attribute__((weak));

inline std::string& currentCaseText()
{
    static std::string s;
    return s;
}
inline std::string& crashPath()
{
    static std::string s;
    return s;
}
inline void writeCrashCase()
{
    const std::string& path = crashPath();
    if (path.empty())
        return;
    int fd = open(path.c_str(), O_WRONLY | O_CREAT | O_TRUNC, 0644);
    if (fd < 0)
        return;
    const std::string& text = currentCaseText();
    const char* head = "# crashed while running this case\n";
    ssize_t r = write(fd, head, strlen(head));
    r = write(fd, text.data(), text.size());
    (void) r;
    close(fd);
}
inline void abortHandler(int sig)
{
    writeCrashCase();
    signal(sig, SIG_DFL);
    raise(sig);
}
inline void installCrashCapture(const std::string& failDir, const std::string& id)
{
    crashPath() = failDir + "/" + id + "-crash.case";
    if (__sanitizer_set_death_callback)
        __sanitizer_set_death_callback(writeCrashCase);
    signal(SIGABRT, abortHandler);
}

// ---------------------------------------------------------------------------------------------------
// Property definition and main loop
// ---------------------------------------------------------------------------------------------------
template <class Case>
struct Property
{
    std::string id;
    // rapidcheck generator, tier 0 = quick, 1 = thorough
    std::function<rc::Gen<Case>(int tier)> gen;
    // the oracle
    std::function<Verdict(const Case&, Info&)> run;
    // optional deterministic enumeration (boundary cases / bounded exhaustive); calls emit for every case and
    // stops as soon as emit returns false
    std::function<void(int tier, const std::function<bool(const Case&)>& emit)> enumerate;
    bool enumerationIsExhaustive{false};
    std::string enumerationNote;
};

struct Options
{
    std::string mode;  // run | enum | replay
    int tier{0};
    bool fork{false};
    std::string statsPath;
    std::string failDir{"."};
    std::vector<std::string> files;
    uint64_t maxEnum{0};  // 0 = unlimited
    std::string dumpDir;     // write every dumpEvery-th generated case to this directory (at most dumpMax)
    uint64_t dumpEvery{1};
    uint64_t dumpMax{0};
    uint64_t enumShard{0};   // enumeration sharding: this process handles cases with index % enumShards == enumShard
    uint64_t enumShards{1};
};

inline Options parseOptions(int argc, char** argv)
{
    Options o;
    for (int i = 1; i < argc; ++i)
    {
        std::string a = argv[i];
        auto val = [&]() -> std::string { return (i + 1 < argc) ? argv[++i] : ""; };
        if (a == "--run")
            o.mode = "run";
        else if (a == "--enum")
            o.mode = "enum";
        else if (a == "--replay")
            o.mode = "replay";
        else if (a == "--tier")
            o.tier = (val() == "thorough") ? 1 : 0;
        else if (a == "--fork")
            o.fork = true;
        else if (a == "--stats")
            o.statsPath = val();
        else if (a == "--faildir")
            o.failDir = val();
        else if (a == "--max-enum")
            o.maxEnum = std::stoull(val());
        else if (a == "--dump-dir")
            o.dumpDir = val();
        else if (a == "--dump-every")
            o.dumpEvery = std::max<uint64_t>(1, std::stoull(val()));
        else if (a == "--dump-max")
            o.dumpMax = std::stoull(val());
        else if (a == "--enum-shard")
        {
            std::string v = val();
            size_t slash = v.find('/');
            o.enumShard = std::stoull(v.substr(0, slash));
            o.enumShards = std::max<uint64_t>(1, std::stoull(v.substr(slash + 1)));
        }
        else
            o.files.push_back(a);
    }
    return o;
}

template <class Case>
Verdict execute(const Property<Case>& prop, const Case& c, Info& info, bool useFork)
{
    if (!useFork)
        return prop.run(c, info);

    fflush(stdout);
    fflush(stderr);
    int fds[2];
    if (pipe(fds) != 0)
        return prop.run(c, info);
    pid_t pid = fork();
    if (pid == 0)
    {
        close(fds[0]);
        Info childInfo;
        Verdict v = prop.run(c, childInfo);
        if (!v.ok)
        {
            std::string w = v.why.substr(0, 4000);
            ssize_t r = write(fds[1], w.data(), w.size());
            (void) r;
        }
        close(fds[1]);
        _exit(v.ok ? 0 : 3);
    }
    close(fds[1]);
    std::string why;
    char buf[512];
    ssize_t n;
    while ((n = read(fds[0], buf, sizeof(buf))) > 0)
        why.append(buf, static_cast<size_t>(n));
    close(fds[0]);
    int status = 0;
    waitpid(pid, &status, 0);
    if (WIFEXITED(status) && WEXITSTATUS(status) == 0)
        return Verdict::pass();
    if (WIFEXITED(status) && WEXITSTATUS(status) == 3)
        return Verdict::fail(why);
    std::ostringstream os;
    os << "child process died (sanitizer report or signal), wait status " << status;
    return Verdict::fail(os.str());
}

inline std::string writeFailure(const std::string& dir, const std::string& id, const std::string& serialized,
                                const std::string& why)
{
    char name[64];
    snprintf(name, sizeof(name), "%s-%016" PRIx64 ".case", id.c_str(), fnv1a(serialized));
    std::string path = dir + "/" + name;
    std::ofstream f(path);
    std::string w = why;
    for (auto& ch : w)
        if (ch == '\n' || static_cast<unsigned char>(ch) < 0x20 || static_cast<unsigned char>(ch) >= 0x7f)
            ch = ' ';
    f << "# property " << id << "\n# why: " << w << "\n" << serialized;
    return path;
}

template <class Case>
int pbtMain(int argc, char** argv, const Property<Case>& prop)
{
    Options opt = parseOptions(argc, argv);
    Stats stats;
    // a replayed file is its own reproduction: nothing is written next to the caller when it crashes
    if (opt.mode != "replay")
        installCrashCapture(opt.failDir, prop.id);

    if (opt.mode == "replay")
    {
        int failures = 0;
        for (const auto& file : opt.files)
        {
            std::ifstream f(file);
            if (!f)
            {
                printf("REPLAY-ERROR cannot open %s\n", file.c_str());
                return 2;
            }
            std::stringstream ss;
            ss << f.rdbuf();
            Case c{};
            std::string err;
            if (!parse(ss.str(), c, err))
            {
                printf("REPLAY-ERROR %s: %s\n", file.c_str(), err.c_str());
                return 2;
            }
            Info info;
            currentCaseText() = serialize(c);
            Verdict v = execute(prop, c, info, opt.fork);
            stats.record(currentCaseText(), info);
            if (v.ok)
                printf("REPLAY-PASS %s\n", file.c_str());
            else
            {
                printf("REPLAY-FAIL %s: %s\n", file.c_str(), v.why.c_str());
                ++failures;
            }
        }
        if (!opt.statsPath.empty())
            stats.writeJson(opt.statsPath, "replay", failures != 0, "", "");
        return failures ? 1 : 0;
    }

    if (opt.mode == "enum")
    {
        if (!prop.enumerate)
        {
            if (!opt.statsPath.empty())
                stats.writeJson(opt.statsPath, "enum", false, "", "");
            return 0;
        }
        bool failed = false;
        std::string failPath, why;
        uint64_t enumIndex = 0;
        prop.enumerate(opt.tier, [&](const Case& c) -> bool {
            if (enumIndex++ % opt.enumShards != opt.enumShard)
                return true;
            Info info;
            currentCaseText() = serialize(c);
            Verdict v = execute(prop, c, info, opt.fork);
            const std::string& s = currentCaseText();
            stats.record(s, info);
            if (!v.ok)
            {
                failed = true;
                why = v.why;
                failPath = writeFailure(opt.failDir, prop.id, s, v.why);
                return false;
            }
            if (opt.maxEnum && stats.evaluations >= opt.maxEnum)
                return false;
            return true;
        });
        stats.exhaustive = prop.enumerationIsExhaustive && !failed && !opt.maxEnum;
        stats.note = prop.enumerationNote;
        if (!opt.statsPath.empty())
            stats.writeJson(opt.statsPath, "enum", failed, failPath, why);
        if (failed)
        {
            printf("FAIL %s\n  why: %s\n", failPath.c_str(), why.c_str());
            return 1;
        }
        printf("ENUM-OK evaluations=%" PRIu64 " nontrivial=%zu\n", stats.evaluations, stats.distinctNontrivial.size());
        return 0;
    }

    // mode "run": rapidcheck loop
    std::string lastFailSerialized, lastFailWhy;
    bool haveFail = false;
    uint64_t dumped = 0;
    auto gen = prop.gen(opt.tier);
    bool ok = rc::check(prop.id, [&]() {
        Case c = *gen;
        Info info;
        currentCaseText() = serialize(c);
        Verdict v = execute(prop, c, info, opt.fork);
        if (!v.ok)
        {
            lastFailSerialized = currentCaseText();
            lastFailWhy = v.why;
            haveFail = true;
            RC_FAIL(v.why);
        }
        if (!haveFail)
        {
            stats.record(currentCaseText(), info);
            if (!opt.dumpDir.empty() && dumped < opt.dumpMax && stats.evaluations % opt.dumpEvery == 0 && info.nontrivial)
            {
                char name[64];
                snprintf(name, sizeof(name), "/dump-%06" PRIu64 ".case", dumped++);
                std::ofstream f(opt.dumpDir + name);
                f << currentCaseText();
            }
        }
    });
    std::string failPath;
    if (!ok && haveFail)
        failPath = writeFailure(opt.failDir, prop.id, lastFailSerialized, lastFailWhy);
    if (!opt.statsPath.empty())
        stats.writeJson(opt.statsPath, "run", !ok, failPath, lastFailWhy);
    if (!ok)
    {
        if (haveFail)
            printf("FAIL %s\n  why: %s\n", failPath.c_str(), lastFailWhy.c_str());
        else
            printf("GENERATOR-ERROR rapidcheck gave up or generator failed\n");
        return haveFail ? 1 : 2;
    }
    printf("RUN-OK evaluations=%" PRIu64 " nontrivial=%" PRIu64 " distinct_nontrivial=%zu\n", stats.evaluations,
           stats.nontrivial, stats.distinctNontrivial.size());
    return 0;
}

// ---------------------------------------------------------------------------------------------------
// Generator helpers
// ---------------------------------------------------------------------------------------------------
// inRange collapses at small sizes (see DESIGN sec. 8): always use the full size.
template <class T>
rc::Gen<T> range(T lo, T hiInclusive)
{
    using W = typename std::conditional<std::is_signed<T>::value, long long, unsigned long long>::type;
    return rc::gen::map(rc::gen::resize(1000, rc::gen::inRange<W>(static_cast<W>(lo), static_cast<W>(hiInclusive) + 1)),
                        [](W v) { return static_cast<T>(v); });
}

template <class T>
rc::Gen<T> anyInt()
{
    // mixture of boundary values and uniform bits
    return rc::gen::weightedOneOf<T>(
        {{1, rc::gen::element<T>(static_cast<T>(0), static_cast<T>(1), static_cast<T>(~static_cast<T>(0)),
                                 static_cast<T>(static_cast<T>(~static_cast<T>(0)) - 1),
                                 static_cast<T>(static_cast<T>(1) << (sizeof(T) * 8 - 1)))},
         {3, rc::gen::map(rc::gen::resize(1000, rc::gen::arbitrary<uint64_t>()), [](uint64_t v) { return static_cast<T>(v); })}});
}

inline rc::Gen<Bytes> bytesOfLen(size_t n)
{
    return rc::gen::container<Bytes>(n, rc::gen::arbitrary<uint8_t>());
}

// deterministic pseudo-random fill used to derive payload contents from a small seed (keeps cases small)
inline uint8_t fillByte(uint32_t seed, size_t j)
{
    uint32_t x = seed * 2654435761u + static_cast<uint32_t>(j) * 40503u + 0x9e3779b9u;
    x ^= x >> 15;
    x *= 2246822519u;
    x ^= x >> 13;
    return static_cast<uint8_t>(x);
}
inline Bytes fillBytes(uint32_t seed, size_t n)
{
    Bytes b(n);
    for (size_t j = 0; j < n; ++j)
        b[j] = fillByte(seed, j);
    return b;
}

}  // namespace vf
