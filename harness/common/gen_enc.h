// Generator for encoder cases (batch of packet recipes + DataContext + encoder ids), DESIGN.md C01/C07/C08.
#pragma once

#include <forward_list>

#include "lib.h"

namespace vf
{

struct EncCall
{
    uint8_t version{1};
    uint32_t minB{0};
    uint32_t maxB{1500};
    std::vector<PacketRecipe> packets;
    int32_t abortAfter{-1};  // >= 0: the caller's iterator throws when packet (abortAfter % size) is read - the call ends with an exception
    void io(Ar& a)
    {
        a.num("version", version);
        a.num("minB", minB);
        a.num("maxB", maxB);
        a.vec("packets", packets);
        a.optionalNum("abortAfter", abortAfter);
    }
};

struct EncCase
{
    uint16_t dev{0};
    uint8_t stream{0};
    uint8_t version{1};
    uint32_t minB{0};
    uint32_t maxB{1500};
    std::vector<PacketRecipe> packets;
    std::vector<EncCall> prior;  // earlier encode calls on the same encoder object (C01 / C07 / C08: "every batch" is not only the first one)
    uint8_t overload{0};  // which encode entry point: 0 vector<Packet> iterators, 1 vector<shared_ptr<Packet>> iterators,
                          // 2 forward_list<Packet> iterators (plain forward iterators), 3 single-packet overload (batches of one)
    int32_t abortAfter{-1};  // history calls only (C10): >= 0: the caller's iterator throws at packet (abortAfter % size)
    uint8_t reuseObjects{0};  // 1: the earlier calls and the call under test encode from the same Packet objects, refilled in place
    uint8_t decoderSawUnfinished{0};  // C01: 1..3 = the decoder received that many frames (first segment + intermediaries) of an
                                      // earlier message on the same endpoint whose tail was lost, before the frames under test
    uint32_t bulkFrames{0};  // > 0: before anything else the encoder emits that many one-frame batches' worth of frames (one call of N one-byte
                             // packets at max = 25), so that the call under test runs next to / across the wrap of the 16-bit frame counter
    uint8_t flagToggle{0};   // != 0 (bits of 0x33): the very Packet objects of the call under test were encoded once before (same context)
                             // with these common-flag bits inverted, and got their final flags through Packet::setCommonFlag(bit, value)
                             // only - no other setter touched them in between (a sender that re-sends a packet with one flag changed)

    void io(Ar& a)
    {
        a.num("dev", dev);
        a.num("stream", stream);
        a.num("version", version);
        a.num("minB", minB);
        a.num("maxB", maxB);
        a.vec("packets", packets);
        a.optionalVec("prior", prior);
        a.optionalNum("overload", overload);
        a.optionalNum("abortAfter", abortAfter);
        a.optionalNum("reuseObjects", reuseObjects);
        a.optionalNum("decoderSawUnfinished", decoderSawUnfinished);
        a.optionalNum("bulkFrames", bulkFrames);
        a.optionalNum("flagToggle", flagToggle);
    }
};

// total payload length the recipe will produce (exact for all kinds)
inline size_t payloadLengthOf(const PacketRecipe& r)
{
    RecipeFields f = deriveFields(r);
    return oracleBytes(r, f).size();
}

// C07's domain ends at 65535 + 24; the other encoder properties only say "maximum >= 25", and the code copes with larger
// maxima (a chunk never exceeds the 65535-byte payload), so those generators also go beyond 65559
inline rc::Gen<uint32_t> genMaxBytes(bool beyond16Bit = false)
{
    return rc::gen::weightedOneOf<uint32_t>(
        {{4, rc::gen::element<uint32_t>(25, 26, 27, 28, 40, 41, 64, 100, 127, 128, 255, 256, 1000, 1500, 9000, 65535, 65559)},
         {6, range<uint32_t>(25, 300)},
         {1, range<uint32_t>(25, 65559)},
         {beyond16Bit ? 1u : 0u, rc::gen::weightedOneOf<uint32_t>({{2, rc::gen::element<uint32_t>(65560, 65561, 65575, 65576, 70000, 131072, 131096, 200000)},
                                                                    {1, range<uint32_t>(65560, 300000)}})}});
}

inline rc::Gen<uint32_t> genMinBytes(uint32_t maxB)
{
    return rc::gen::weightedOneOf<uint32_t>(
        {{4, rc::gen::element<uint32_t>(0, 0, 1, 8, 24, 25, 60, 64, maxB > 0 ? maxB - 1 : 0, maxB)}, {3, range<uint32_t>(0, maxB)}});
}

// A generic (untyped) message type / payload type pair
inline rc::Gen<std::pair<uint8_t, uint8_t>> genGenericTypes()
{
    return rc::gen::exec([]() {
        uint8_t mt = *rc::gen::weightedOneOf<uint8_t>(
            {{6, rc::gen::element<uint8_t>(1, 1, 2, 3, 0xFF)}, {1, range<uint8_t>(4, 0xFE)}});
        uint8_t pt = *rc::gen::weightedOneOf<uint8_t>({{3, rc::gen::element<uint8_t>(0x20, 0x21, 0xFF, 0x04, 0x09)}, {1, range<uint8_t>(1, 255)}});
        if (mt == 1 && (pt == 1 || pt == 2 || pt == 3 || pt == 7 || pt == 8))
            pt = 0x20;
        if (mt == 3 && (pt == 1 || pt == 2))
            pt = 0x30;
        return std::make_pair(mt, pt);
    });
}

struct EncGenParams
{
    int maxBatch{12};
    bool allowEmpty{false};
    size_t boundaryWeight{3};  // weight of configuration-derived lengths (others: 4 small, 2 uniform, 1 huge)
    size_t frameBudget{70000};
    bool beyond16Bit{false};   // maxima above 65559 (not for C07, whose domain ends there)
    bool allowErrorFlag{false};  // packets whose common flags carry errorInPayload (0x40): legal input of the encoder-only properties
                                 // (C07 - C10); the round-trip property C01 excludes them because a decoder drops such messages
};

inline rc::Gen<EncCase> genEncCase(const EncGenParams& params)
{
    return rc::gen::exec([params]() {
        EncCase c;
        c.dev = *anyInt<uint16_t>();
        c.stream = *anyInt<uint8_t>();
        c.version = *range<uint8_t>(1, 255);
        c.maxB = *genMaxBytes(params.beyond16Bit);
        c.minB = std::min(*genMinBytes(c.maxB), c.maxB);
        const long cap = static_cast<long>(c.maxB) - 8;
        const long lfit = cap - 16;

        int n = *rc::gen::weightedOneOf<int>({{1, rc::gen::just(params.allowEmpty ? 0 : 1)},
                                             {3, range<int>(1, 3)},
                                             {6, range<int>(1, params.maxBatch)}});
        // message types come in runs so that aggregation and type changes both occur
        uint8_t curKind = *range<uint8_t>(0, 7);
        auto curTypes = *genGenericTypes();
        long used = 0;  // bytes used in the frame being filled (approximation, to aim lengths at the boundary)
        size_t frames = 0;
        for (int i = 0; i < n; ++i)
        {
            if (i > 0 && *range<int>(0, 2) == 0)
            {
                curKind = *range<uint8_t>(0, 7);
                curTypes = *genGenericTypes();
            }
            PacketRecipe r;
            r.kind = curKind;
            r.msgType = curTypes.first;
            r.ptype = curTypes.second;
            r.seed = *rc::gen::arbitrary<uint32_t>();
            r.ts = *anyInt<uint64_t>();
            r.ifId = *anyInt<uint32_t>();
            r.vendorId = *anyInt<uint16_t>();
            r.flags = static_cast<uint8_t>(*anyInt<uint8_t>() & ~0x40);
            if (params.allowErrorFlag && *range<int>(0, 5) == 0)
                r.flags = static_cast<uint8_t>(r.flags | 0x40);
            r.viaApi = *range<uint8_t>(0, 1);
            // one typed packet in eight: the payload is resized in place after it was handed to the packet
            if (r.kind >= rkCan && r.kind <= rkEthernet && *range<int>(0, 7) == 0)
                r.inPlace = 1;

            // target total payload length
            long target = *rc::gen::weightedOneOf<long>(
                {{4, range<long>(1, 64)},
                 {params.boundaryWeight,
                  rc::gen::exec([=]() {
                      long k = *range<long>(1, 3);
                      long d = *range<long>(-2, 2);
                      int which = *range<int>(0, 2);
                      if (which == 0)
                          return k * lfit + d;  // multiples of the segment capacity
                      if (which == 1)
                          return lfit + d;  // fits an empty frame exactly / just not
                      return (cap - used) - 16 + d;  // fits the rest of the current frame exactly / just not
                  })},
                 {2, range<long>(1, std::max<long>(1, 4 * cap))},
                 {1, range<long>(60000, 65535)},
                 {1, rc::gen::map(range<long>(0, 24), [](long d) { return 65535 - d; })}});  // top of the 16-bit length range
            target = std::max<long>(1, std::min<long>(target, 65535));
            long hs = static_cast<long>(PacketRecipe::headerSize(r.kind));
            long len = r.kind == rkGeneric ? target : std::max<long>(0, target - hs);
            len = std::min<long>(len, PacketRecipe::maxLen(r.kind));
            r.len = static_cast<uint32_t>(len);
            size_t total = payloadLengthOf(r);
            // keep the amount of work per case bounded
            size_t need = total / static_cast<size_t>(std::max<long>(1, lfit)) + 1;
            if (frames + need > params.frameBudget)
            {
                r.len = r.kind == rkGeneric ? 1 : 0;
                total = payloadLengthOf(r);
                need = 1;
            }
            frames += need;
            // track the fill level of the current frame (only needs to be roughly right)
            if (16 + static_cast<long>(total) > cap)
                used = cap;
            else if (used + 16 + static_cast<long>(total) > cap)
                used = 16 + static_cast<long>(total);
            else
                used += 16 + static_cast<long>(total);
            c.packets.push_back(r);
        }
        return c;
    });
}

inline std::vector<lib::Packet> buildBatch(const EncCase& c)
{
    std::vector<lib::Packet> out;
    out.reserve(c.packets.size());
    for (const auto& r : c.packets)
        out.push_back(buildPacket(r, c.version));
    return out;
}

// the batch goes through the entry point the case selects (all of them must behave alike)
inline std::vector<std::vector<uint8_t>> encodeVia(lib::Encoder& enc, std::vector<lib::Packet>& batch, const lib::DataContext& ctx, uint8_t overload)
{
    switch (overload % 4)
    {
        case 1:
        {
            std::vector<std::shared_ptr<lib::Packet>> ptrs;
            for (auto& p : batch)
                ptrs.push_back(std::make_shared<lib::Packet>(p));
            return enc.encode(ptrs.begin(), ptrs.end(), ctx);
        }
        case 2:
        {
            std::forward_list<lib::Packet> fl(batch.begin(), batch.end());
            return enc.encode(fl.begin(), fl.end(), ctx);
        }
        case 3:
            if (batch.size() == 1)
                return enc.encode(batch[0], ctx);
            return enc.encode(batch.begin(), batch.end(), ctx);
        default:
            return enc.encode(batch.begin(), batch.end(), ctx);
    }
}

// An encode call that the caller's own iterator ends with an exception part-way through the batch (a legitimate history: the
// library cannot know what a user iterator does). What such a call leaves behind must not show in later calls.
struct AbortEncode
{
};
class ThrowingIt
{
public:
    using iterator_category = std::forward_iterator_tag;
    using value_type = lib::Packet;
    using difference_type = std::ptrdiff_t;
    using pointer = const lib::Packet*;
    using reference = const lib::Packet&;
    ThrowingIt() = default;
    ThrowingIt(const std::vector<lib::Packet>* v, size_t i, size_t throwAt)
        : v(v)
        , i(i)
        , throwAt(throwAt)
    {
    }
    reference operator*() const
    {
        if (i == throwAt)
            throw AbortEncode{};
        return (*v)[i];
    }
    pointer operator->() const
    {
        return &**this;
    }
    ThrowingIt& operator++()
    {
        ++i;
        return *this;
    }
    ThrowingIt operator++(int)
    {
        ThrowingIt t = *this;
        ++i;
        return t;
    }
    bool operator==(const ThrowingIt& o) const
    {
        return i == o.i;
    }
    bool operator!=(const ThrowingIt& o) const
    {
        return i != o.i;
    }

private:
    const std::vector<lib::Packet>* v{nullptr};
    size_t i{0};
    size_t throwAt{0};
};
// returns true if the call ended with the iterator's exception
inline bool encodeAborted(lib::Encoder& enc, std::vector<lib::Packet>& batch, const lib::DataContext& ctx, int32_t abortAfter)
{
    if (batch.empty())
    {
        enc.encode(batch.begin(), batch.end(), ctx);
        return false;
    }
    const size_t at = static_cast<size_t>(abortAfter) % batch.size();
    try
    {
        enc.encode(ThrowingIt(&batch, 0, at), ThrowingIt(&batch, batch.size(), at), ctx);
    }
    catch (const AbortEncode&)
    {
        return true;
    }
    return false;
}

// runs the case's earlier encode calls on the encoder (ids already configured); their output is not inspected here
inline void runPriorCalls(lib::Encoder& enc, const EncCase& c)
{
    for (const auto& call : c.prior)
    {
        std::vector<lib::Packet> batch;
        for (const auto& r : call.packets)
            batch.push_back(buildPacket(r, call.version));
        if (call.abortAfter >= 0)
            encodeAborted(enc, batch, lib::DataContext{call.minB, call.maxB}, call.abortAfter);
        else
            encodeVia(enc, batch, lib::DataContext{call.minB, call.maxB}, static_cast<uint8_t>(c.overload + 1 + batch.size()));
    }
}

// Runs the earlier calls and returns the batch for the call under test.  With reuseObjects all calls encode from one pool of
// Packet objects whose storage is reserved once (a sender that keeps and refills its packet objects): the packets of the call
// under test then sit at the addresses the earlier calls' packets had.
inline void bulkPrefix(lib::Encoder& enc, const EncCase& c)
{
    if (!c.bulkFrames)
        return;
    PacketRecipe r;
    r.kind = rkGeneric;
    r.msgType = 1;
    r.ptype = 0x20;
    r.len = 1;
    std::vector<lib::Packet> bulk(c.bulkFrames, buildPacket(r, 1));
    enc.encode(bulk.begin(), bulk.end(), lib::DataContext{0, 25});
}

// flagToggle: the objects in `batch` currently hold the recipes with the toggled flag bits inverted; they are encoded once and then
// receive their final flags through the single-bit setter only
inline void resendWithFlagsChanged(lib::Encoder& enc, const EncCase& c, std::vector<lib::Packet>& batch)
{
    const uint8_t bits = static_cast<uint8_t>(c.flagToggle & 0x33);
    if (!bits || batch.empty())
        return;
    encodeVia(enc, batch, lib::DataContext{c.minB, c.maxB}, c.overload);
    for (size_t i = 0; i < batch.size(); ++i)
        for (uint8_t bit : {uint8_t(0x01), uint8_t(0x02), uint8_t(0x10), uint8_t(0x20)})
            if (bits & bit)
                batch[i].setCommonFlag(static_cast<lib::MessageHeader::CommonFlags>(bit), (c.packets[i].flags & bit) != 0);
}
inline PacketRecipe withFlagsInverted(const PacketRecipe& r, const EncCase& c)
{
    PacketRecipe x = r;
    x.flags = static_cast<uint8_t>(x.flags ^ (c.flagToggle & 0x33));
    return x;
}

inline std::vector<lib::Packet> priorCallsThenBatch(lib::Encoder& enc, const EncCase& c)
{
    bulkPrefix(enc, c);
    if (!c.reuseObjects)
    {
        runPriorCalls(enc, c);
        if (!(c.flagToggle & 0x33))
            return buildBatch(c);
        std::vector<lib::Packet> batch;
        batch.reserve(c.packets.size());
        for (const auto& r : c.packets)
            batch.push_back(buildPacket(withFlagsInverted(r, c), c.version));
        resendWithFlagsChanged(enc, c, batch);
        return batch;
    }
    std::vector<lib::Packet> pool;
    size_t cap = c.packets.size();
    for (const auto& call : c.prior)
        cap = std::max(cap, call.packets.size());
    pool.reserve(cap + 1);
    for (const auto& call : c.prior)
    {
        pool.resize(call.packets.size());
        for (size_t i = 0; i < call.packets.size(); ++i)
            fillPacket(pool[i], call.packets[i], call.version);
        if (call.abortAfter >= 0)
            encodeAborted(enc, pool, lib::DataContext{call.minB, call.maxB}, call.abortAfter);
        else
            encodeVia(enc, pool, lib::DataContext{call.minB, call.maxB}, static_cast<uint8_t>(c.overload + 1 + pool.size()));
    }
    pool.resize(c.packets.size());
    for (size_t i = 0; i < c.packets.size(); ++i)
        fillPacket(pool[i], withFlagsInverted(c.packets[i], c), c.version);
    resendWithFlagsChanged(enc, c, pool);
    return pool;  // moved: the storage, and with it every address, stays
}

// adds 0..3 earlier calls (other configurations, versions, message types) to half of the cases
inline rc::Gen<EncCase> withPriorCalls(rc::Gen<EncCase> base, const EncGenParams& params)
{
    return rc::gen::exec([base, params]() {
        EncCase c = *base;
        c.overload = *rc::gen::weightedElement<uint8_t>({{3, 0}, {2, 1}, {2, 2}, {2, 3}});
        // one case in sixteen: the encoder has emitted 65520..65536 (or twice that) frames before, so the call under test runs across the
        // wrap of the frame counter; one in eight: the packet objects were sent once before with single flag bits inverted
        if (*range<int>(0, 15) == 0)
            c.bulkFrames = *rc::gen::weightedOneOf<uint32_t>({{4, range<uint32_t>(65520, 65536)}, {1, range<uint32_t>(131056, 131072)}});
        if (*range<int>(0, 7) == 0)
            c.flagToggle = *rc::gen::element<uint8_t>(0x01, 0x02, 0x10, 0x20, 0x33, 0x11);
        if (*range<int>(0, 1) == 0)
            return c;
        EncGenParams p = params;
        p.maxBatch = 4;
        p.frameBudget = 2000;
        p.allowEmpty = true;
        c.reuseObjects = *range<uint8_t>(0, 1);
        int n = *range<int>(1, 3);
        for (int i = 0; i < n; ++i)
        {
            EncCase h = *genEncCase(p);
            EncCall call;
            call.version = h.version;
            call.minB = h.minB;
            call.maxB = h.maxB;
            call.packets = h.packets;
            // bias: the earlier call used a larger / the same frame size and ended with the message type the case starts with
            int bias = *range<int>(0, 3);
            if (bias == 0 && c.maxB < 60000)
            {
                call.maxB = c.maxB + *range<uint32_t>(1, 2000);
                call.minB = std::min(call.minB, call.maxB);
            }
            else if (bias == 1)
            {
                call.maxB = c.maxB;
                call.minB = std::min(call.minB, call.maxB);
            }
            if (!call.packets.empty() && !c.packets.empty() && *range<int>(0, 1))
            {
                call.packets.back().kind = c.packets.front().kind;
                call.packets.back().msgType = c.packets.front().msgType;
                call.packets.back().ptype = c.packets.front().ptype;
                call.packets.back().len = std::min(call.packets.back().len, PacketRecipe::maxLen(call.packets.back().kind));
                if (call.packets.back().kind == rkGeneric && call.packets.back().len == 0)
                    call.packets.back().len = 1;
            }
            // one in eight earlier calls is ended by the caller's iterator throwing part-way
            if (!call.packets.empty() && *range<int>(0, 7) == 0)
                call.abortAfter = *range<int32_t>(0, static_cast<int32_t>(call.packets.size()) - 1);
            c.prior.push_back(call);
        }
        return c;
    });
}

// ---------------------------------------------------------------------------------------------------
// Coverage-guided mode: maps an arbitrary field image of an encoder case into the domain the rapidcheck generator above draws from
// (same per-property switches), with bounded work.  Every clamp mirrors a rule of genEncCase / genGenericTypes / withPriorCalls.
// ---------------------------------------------------------------------------------------------------
struct EncNormParams
{
    bool allowEmptyBatch{false};
    bool allowErrorFlag{false};
    bool allowEmptyPayload{false};  // generic packets with a zero-length payload (C08 - C10)
    bool allowMsgType0{false};      // generic packets of message type 0 (C09 / C10)
    uint32_t maxMaxB{300000};
    size_t maxBatch{16};
    size_t frameBudget{12000};
};

inline void normalizeRecipe(PacketRecipe& r, const EncNormParams& np)
{
    r.kind = static_cast<uint8_t>(r.kind % 8);
    r.viaApi = r.viaApi ? 1 : 0;
    r.inPlace = (r.inPlace && r.kind >= rkCan && r.kind <= rkEthernet) ? 1 : 0;
    if (!np.allowErrorFlag)
        r.flags = static_cast<uint8_t>(r.flags & ~0x40);
    if (r.kind == rkGeneric)
    {
        if (r.msgType == 0 && !np.allowMsgType0)
            r.msgType = 1;
        if (r.ptype == 0)
            r.ptype = 0x20;  // a message with payload type byte 0 reads as padding
        if (r.msgType == 1 && (r.ptype == 1 || r.ptype == 2 || r.ptype == 3 || r.ptype == 7 || r.ptype == 8))
            r.ptype = 0x20;  // typed data payloads are produced by their own kinds (well-formed by construction)
        if (r.msgType == 3 && (r.ptype == 1 || r.ptype == 2))
            r.ptype = 0x30;
        r.emptyPayload = (r.emptyPayload && np.allowEmptyPayload) ? 1 : 0;
        if (r.emptyPayload)
            r.len = 0;
        else if (r.len == 0)
            r.len = 1;
    }
    else
        r.emptyPayload = 0;
    r.len = std::min<uint32_t>(r.len, PacketRecipe::maxLen(r.kind));
}

inline void normalizeCall(uint8_t& version, uint32_t& minB, uint32_t& maxB, std::vector<PacketRecipe>& packets, const EncNormParams& np, size_t maxBatch,
                          size_t budget)
{
    if (version == 0)
        version = 1;
    maxB = std::max<uint32_t>(25, std::min<uint32_t>(maxB, np.maxMaxB));
    minB = std::min(minB, maxB);
    if (packets.size() > maxBatch)
        packets.resize(maxBatch);
    const size_t lfit = maxB - 24;
    size_t frames = 0;
    for (auto& r : packets)
    {
        normalizeRecipe(r, np);
        size_t need = payloadLengthOf(r) / lfit + 1;
        if (frames + need > budget)
        {
            r.len = (r.kind == rkGeneric && !r.emptyPayload) ? 1 : 0;
            need = 1;
        }
        frames += need;
    }
}

inline void normalizeEncCase(EncCase& c, const EncNormParams& np)
{
    normalizeCall(c.version, c.minB, c.maxB, c.packets, np, np.maxBatch, np.frameBudget);
    if (c.packets.empty() && !np.allowEmptyBatch)
    {
        PacketRecipe r;
        normalizeRecipe(r, np);
        c.packets.push_back(r);
    }
    c.overload = static_cast<uint8_t>(c.overload % 4);
    c.reuseObjects = c.reuseObjects ? 1 : 0;
    c.decoderSawUnfinished = static_cast<uint8_t>(c.decoderSawUnfinished % 4);
    if (c.bulkFrames && (c.bulkFrames < 65500 || c.bulkFrames > 65536))
        c.bulkFrames = 0;  // only prefixes that end next to the counter wrap are worth their cost here
    c.flagToggle = static_cast<uint8_t>(c.flagToggle & 0x33);
    if (c.abortAfter < -1)
        c.abortAfter = -1;
    if (c.prior.size() > 3)
        c.prior.resize(3);
    EncNormParams pp = np;
    pp.allowEmptyBatch = true;
    for (auto& call : c.prior)
    {
        normalizeCall(call.version, call.minB, call.maxB, call.packets, pp, 6, 3000);
        if (call.abortAfter < -1 || call.packets.empty())
            call.abortAfter = -1;
    }
    // a packet with a zero-length payload has no single-packet form in the generators either
    for (const auto& r : c.packets)
        if (r.emptyPayload && c.overload == 3)
            c.overload = 0;
}

// classification shared by C01 / C07 / C08
struct EncClasses
{
    bool segmented{false};
    bool aggregated{false};
    bool mixedTypes{false};
    bool nearBoundary{false};
    bool padded{false};
};

inline EncClasses classify(const EncCase& c, const std::vector<size_t>& lengths)
{
    EncClasses k;
    std::vector<model::LayoutPacket> lp;
    for (size_t i = 0; i < c.packets.size(); ++i)
        lp.push_back({c.packets[i].messageType(), lengths[i]});
    auto layout = model::referenceLayout(lp, c.maxB);
    const long cap = static_cast<long>(c.maxB) - 8;
    for (const auto& f : layout)
    {
        if (f.messages.size() > 1)
            k.aggregated = true;
        size_t used = 8;
        for (const auto& m : f.messages)
        {
            if (m.seg)
                k.segmented = true;
            used += 16 + m.length;
        }
        if (used < c.minB)
            k.padded = true;
    }
    for (size_t i = 1; i < lp.size(); ++i)
        if (lp[i].msgType != lp[0].msgType)
            k.mixedTypes = true;
    for (const auto& p : lp)
    {
        long d = (16 + static_cast<long>(p.length)) - cap;
        if (d >= -2 && d <= 2)
            k.nearBoundary = true;
    }
    return k;
}

}  // namespace vf
