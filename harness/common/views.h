// Accessor sweeps for typed payloads: call every const accessor and check that every reported view lies inside the
// payload's own bytes (C03; also used by the C02 fuzz target on every valid packet).
#pragma once

#include "lib.h"

namespace vf
{

enum PayloadClass : uint8_t
{
    pcCan = 0,
    pcCanFd = 1,
    pcLin = 2,
    pcEthernet = 3,
    pcAnalog = 4,
    pcCm = 5,
    pcIf = 6,
    pcCount = 7
};
inline const char* className(uint8_t c)
{
    static const char* n[] = {"can", "canfd", "lin", "ethernet", "analog", "cmstatus", "ifstatus"};
    return c < 7 ? n[c] : "?";
}
inline size_t classHeader(uint8_t c)
{
    static const size_t h[] = {16, 16, 8, 6, 16, 26, 36};
    return c < 7 ? h[c] : 0;
}
inline uint8_t classMsgType(uint8_t c)
{
    return c >= pcCm ? wire::kMtStatus : wire::kMtData;
}
inline uint8_t classPayloadType(uint8_t c)
{
    static const uint8_t t[] = {wire::kPtCan, wire::kPtCanFd, wire::kPtLin, wire::kPtEthernet, wire::kPtAnalog, wire::kPtCmStatus, wire::kPtIfStatus};
    return c < 7 ? t[c] : 0;
}
inline bool classOfType(uint32_t type32, uint8_t& cls)
{
    switch (type32)
    {
        case lib::PayloadType::can:
            cls = pcCan;
            return true;
        case lib::PayloadType::canFd:
            cls = pcCanFd;
            return true;
        case lib::PayloadType::lin:
            cls = pcLin;
            return true;
        case lib::PayloadType::ethernet:
            cls = pcEthernet;
            return true;
        case lib::PayloadType::analog:
            cls = pcAnalog;
            return true;
        case lib::PayloadType::cmStatMsg:
            cls = pcCm;
            return true;
        case lib::PayloadType::ifStatMsg:
            cls = pcIf;
            return true;
    }
    return false;
}

inline bool classValidates(uint8_t cls, const uint8_t* p, size_t n)
{
    switch (cls)
    {
        case pcCan:
            return lib::CanPayload::isValidPayload(p, n);
        case pcCanFd:
            return lib::CanFdPayload::isValidPayload(p, n);
        case pcLin:
            return lib::LinPayload::isValidPayload(p, n);
        case pcEthernet:
            return lib::EthernetPayload::isValidPayload(p, n);
        case pcAnalog:
            return lib::AnalogPayload::isValidPayload(p, n);
        case pcCm:
            return lib::CaptureModulePayload::isValidPayload(p, n);
        case pcIf:
            return lib::InterfacePayload::isValidPayload(p, n);
    }
    return false;
}

struct ViewStats
{
    size_t views{0};
    size_t nonEmptyViews{0};
    uint64_t digest{0};
};

inline Verdict checkView(const lib::Payload& pl, const void* ptr, size_t len, const char* what, ViewStats& vs)
{
    const uint8_t* raw = pl.getRawPayload();
    size_t n = pl.getLength();
    ++vs.views;
    if (ptr == nullptr)
        return Verdict::pass();
    const uint8_t* p = static_cast<const uint8_t*>(ptr);
    VF_CHECK(p >= raw && p <= raw + n && len <= static_cast<size_t>(raw + n - p),
             "view " << what << " [offset " << (p - raw) << ", length " << len << ") leaves the payload of " << n << " bytes");
    if (len)
    {
        ++vs.nonEmptyViews;
        vs.digest = fnv1a(p, len, vs.digest ? vs.digest : 1469598103934665603ull);  // reads every byte of the view (ASan)
    }
    return Verdict::pass();
}

// `pl` must be a payload of the class (the library's own down-cast idiom: derived classes add no members)
inline Verdict sweepAccessors(uint8_t cls, const lib::Payload& pl, ViewStats& vs)
{
    volatile uint64_t sink = 0;
    switch (cls)
    {
        case pcCan:
        {
            const auto& p = static_cast<const lib::CanPayload&>(pl);
            sink = sink + p.getFlags() + p.getId() + p.getRsvd() + p.getIde() + p.getCrcSupport() + p.getErrorPosition() + p.getDlc() + p.getRtr() +
                   p.getCrc() + p.getFlag(lib::CanPayloadBase::Flags::brs);
            VF_TRY(checkView(pl, p.getData(), p.getDataLength(), "CAN data", vs));
            break;
        }
        case pcCanFd:
        {
            const auto& p = static_cast<const lib::CanFdPayload&>(pl);
            sink = sink + p.getFlags() + p.getId() + p.getRsvd() + p.getIde() + p.getCrcSupport() + p.getErrorPosition() + p.getDlc() + p.getRrs() +
                   p.getCrc() + p.getSbc() + p.getSbcParity() + p.getSbcSupport();
            VF_TRY(checkView(pl, p.getData(), p.getDataLength(), "CAN-FD data", vs));
            break;
        }
        case pcLin:
        {
            const auto& p = static_cast<const lib::LinPayload&>(pl);
            sink = sink + p.getFlags() + p.getLinId() + p.getParityBits() + p.getChecksum() + p.getFlag(lib::LinPayload::Flags::wup);
            VF_TRY(checkView(pl, p.getData(), p.getDataLength(), "LIN data", vs));
            break;
        }
        case pcEthernet:
        {
            const auto& p = static_cast<const lib::EthernetPayload&>(pl);
            sink = sink + p.getFlags() + p.getFlag(lib::EthernetPayload::Flags::fcsSupport);
            VF_TRY(checkView(pl, p.getData(), p.getDataLength(), "Ethernet data", vs));
            break;
        }
        case pcAnalog:
        {
            const auto& p = static_cast<const lib::AnalogPayload&>(pl);
            float f = p.getSampleInterval() + p.getSampleOffset() + p.getSampleScalar();
            (void) f;
            sink = sink + p.getFlags() + static_cast<unsigned>(p.getUnit());
            size_t sample = p.getSampleDt() == lib::AnalogPayload::SampleDt::aInt16 ? 2 : 4;
            VF_TRY(checkView(pl, p.getData(), p.getSamplesCount() * sample, "analog samples", vs));
            break;
        }
        case pcCm:
        {
            const auto& p = static_cast<const lib::CaptureModulePayload&>(pl);
            sink = sink + p.getUptime() + p.getGmIdentity() + p.getGmClockQuality() + p.getCurrentUtcOffset() + p.getTimeSource() +
                   p.getDomainNumber() + p.getGptpFlags();
            auto d = p.getDeviceDescription();
            VF_TRY(checkView(pl, d.data(), d.size(), "device description", vs));
            auto s = p.getSerialNumber();
            VF_TRY(checkView(pl, s.data(), s.size(), "serial number", vs));
            auto h = p.getHardwareVersion();
            VF_TRY(checkView(pl, h.data(), h.size(), "hardware version", vs));
            auto w = p.getSoftwareVersion();
            VF_TRY(checkView(pl, w.data(), w.size(), "software version", vs));
            VF_TRY(checkView(pl, p.getVendorData(), p.getVendorDataLength(), "CM vendor data", vs));
            auto v = p.getVendorDataStringView();
            VF_TRY(checkView(pl, v.data(), v.size(), "CM vendor data string view", vs));
            break;
        }
        case pcIf:
        {
            const auto& p = static_cast<const lib::InterfacePayload&>(pl);
            sink = sink + p.getInterfaceId() + p.getMsgTotalRx() + p.getMsgTotalTx() + p.getMsgDroppedRx() + p.getMsgDroppedTx() +
                   p.getErrorsTotalRx() + p.getErrorsTotalTx() + p.getInterfaceType() + static_cast<unsigned>(p.getInterfaceStatus()) +
                   p.getFeatureSupportBitmask();
            VF_TRY(checkView(pl, p.getStreamIds(), p.getStreamIdsCount(), "stream ids", vs));
            VF_TRY(checkView(pl, p.getVendorData(), p.getVendorDataLength(), "IF vendor data", vs));
            break;
        }
    }
    (void) sink;
    return Verdict::pass();
}

// sweep a packet returned by the decoder / built from a message buffer, if it is valid and typed
inline Verdict sweepPacket(const lib::Packet& p, ViewStats& vs, bool* typed = nullptr)
{
    if (typed)
        *typed = false;
    if (!p.verifHasPayload() || !p.isValid())
        return Verdict::pass();
    uint8_t cls;
    if (!classOfType(p.getPayload().getType().getType(), cls))
        return Verdict::pass();
    if (typed)
        *typed = true;
    return sweepAccessors(cls, p.getPayload(), vs);
}

}  // namespace vf
