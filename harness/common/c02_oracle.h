// Oracle for C02 (shared by the rapidcheck sweep and the libFuzzer target): memory safety is observed by ASan/UBSan on
// exactly-sized heap copies; this code adds the semantic part - input not written, packet count bound, non-null packets
// with payload objects, ownership (snapshots stay equal after the buffer is freed, after later frames and after the
// decoder is destroyed), every accessor view of every valid typed packet in bounds.
#pragma once

#include "tecmp.h"

namespace vf
{

struct HistoryStats
{
    size_t buffers{0};
    size_t packets{0};
    size_t validTyped{0};
    size_t tecmpBuffers{0};
    size_t tecmpPackets{0};
    size_t pendingAfter{0};
    size_t reassembled{0};
    bool anyPacket() const
    {
        return packets > 0;
    }
};

struct OwnedPacket
{
    std::shared_ptr<lib::Packet> packet;
    Snap first;
    uint64_t viewDigest{0};
    size_t frameIndex{0};
};

inline Verdict snapshotAgain(const OwnedPacket& op, const char* when)
{
    Snap again = snap(*op.packet);
    VF_CHECK(again == op.first, "packet from buffer " << op.frameIndex << " changed " << when << ": was " << op.first.str() << " now " << again.str());
    ViewStats vs;
    VF_TRY(sweepPacket(*op.packet, vs));
    VF_CHECK(vs.digest == op.viewDigest, "accessor views of the packet from buffer " << op.frameIndex << " changed " << when);
    return Verdict::pass();
}

// "returns promptly": a decode call of at most 64 KiB takes milliseconds; one that is still running after 30 s is reported (the process
// aborts, the driver's abort handler saves the case).  Not armed inside libFuzzer targets, whose own -timeout uses SIGALRM.
#if !defined(VF_CGF) && !defined(VF_LIBFUZZER_TARGET)
inline void decodeAlarm(int)
{
    static const char msg[] = "runtime error: Decoder::decode did not return within 30 s (C02: decoding returns promptly)\n";
    ssize_t r = write(2, msg, sizeof(msg) - 1);
    (void) r;
    abort();
}
struct DecodeWatch
{
    DecodeWatch()
    {
        signal(SIGALRM, decodeAlarm);
        alarm(30);
    }
    ~DecodeWatch()
    {
        alarm(0);
    }
};
#else
struct DecodeWatch
{
    DecodeWatch()
    {
    }
};
#endif

inline Verdict checkHistory(const std::vector<Bytes>& buffers, HistoryStats& hs)
{
    std::vector<OwnedPacket> owned;
    {
        auto dec = std::make_unique<lib::Decoder>();
        for (size_t i = 0; i < buffers.size(); ++i)
        {
            const Bytes& b = buffers[i];
            ++hs.buffers;
            bool tecmp = b.size() >= 8 && b[0] == 0;
            if (tecmp)
                ++hs.tecmpBuffers;
            uint8_t* heap = static_cast<uint8_t*>(malloc(b.size() ? b.size() : 1));
            if (!b.empty())
                memcpy(heap, b.data(), b.size());
            std::vector<std::shared_ptr<lib::Packet>> got;
            try
            {
                DecodeWatch watch;
                got = dec->decode(heap, b.size());
            }
            catch (const std::exception& e)
            {
                free(heap);
                return Verdict::fail("buffer " + std::to_string(i) + " (" + std::to_string(b.size()) + " bytes): decode() did not return normally, it threw " + e.what());
            }
            catch (...)
            {
                free(heap);
                return Verdict::fail("buffer " + std::to_string(i) + " (" + std::to_string(b.size()) + " bytes): decode() did not return normally, it threw");
            }
            bool untouched = b.empty() || memcmp(heap, b.data(), b.size()) == 0;
            free(heap);  // released before the packets are looked at: aliasing the input becomes a use-after-free
            VF_CHECK(untouched, "buffer " << i << " (" << b.size() << " bytes) was written to by decode");
            VF_CHECK(got.size() * 12 <= b.size(), "buffer " << i << " of " << b.size() << " bytes produced " << got.size() << " packets (more than one per 12 bytes)");
            for (const auto& p : got)
            {
                VF_CHECK(p != nullptr, "buffer " << i << ": null packet returned");
                VF_CHECK(p->verifHasPayload(), "buffer " << i << ": packet without payload object");
                OwnedPacket op;
                op.packet = p;
                op.first = snap(*p);
                op.frameIndex = i;
                ViewStats vs;
                bool typed = false;
                VF_TRY(sweepPacket(*p, vs, &typed));
                op.viewDigest = vs.digest;
                if (typed)
                    ++hs.validTyped;
                if (tecmp)
                    ++hs.tecmpPackets;
                if (!tecmp && (op.first.flags & 0x0C))
                    ++hs.reassembled;
                ++hs.packets;
                owned.push_back(std::move(op));
            }
            hs.pendingAfter += dec->verifPending().size();
        }
        // after all later frames were decoded
        for (const auto& op : owned)
            VF_TRY(snapshotAgain(op, "after later buffers were decoded"));
    }
    // after the decoder is destroyed
    for (const auto& op : owned)
        VF_TRY(snapshotAgain(op, "after the decoder was destroyed"));
    return Verdict::pass();
}

}  // namespace vf
