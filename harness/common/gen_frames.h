// Generator of frame histories from an abstract alphabet (DESIGN.md C17 / C18 / C02 / C04 prior histories).
#pragma once

#include <array>

#include <map>

#include "frames.h"

namespace vf
{

struct HistoryGenParams
{
    int maxFrames{40};
    int endpoints{3};
    bool allowGarbage{true};     // raw random buffers, mixed frames (segment after unsegmented messages)
    bool allowHeaderOnly{true};  // 8-byte frames
    bool allowTecmp{true};
    bool closeAtEnd{false};      // append one unsegmented frame per endpoint (closing traffic)
    uint32_t maxSegLen{64};
    int bigSegmentHistories{0};  // N > 0: one history in N uses segments of 20000..65535 bytes on one or two endpoints, so that
                                 // accumulated messages cross the 65535 bytes a 16-bit length can describe
    int manyEndpoints{0};        // N > 0: one history in N starts with first segments of 60..70 / 250..260 / 1020..1030 distinct endpoints
                                 // (that many messages in progress at once: table sizes, limits, evictions)
};

struct GenEndpointState
{
    bool open{false};
    uint16_t nextSeq{0};
    uint8_t version{1};
    uint8_t msgType{1};
    bool known{false};
};

inline MsgRecipe genMsg(uint8_t seg, uint32_t maxLen)
{
    MsgRecipe m;
    m.seg = seg;
    m.ptype = *rc::gen::element<uint8_t>(0x20, 0x21, 0xFF, 0x09);
    m.flags = static_cast<uint8_t>(*anyInt<uint8_t>() & ~0x4C);
    m.ts = *anyInt<uint64_t>();
    m.idWord = *anyInt<uint32_t>();
    m.seed = *rc::gen::arbitrary<uint32_t>();
    m.len = *rc::gen::weightedOneOf<uint32_t>({{1, rc::gen::just<uint32_t>(0)}, {6, range<uint32_t>(1, 24)}, {2, range<uint32_t>(0, maxLen)}});
    return m;
}

inline Bytes tecmpSample(uint32_t seed)
{
    // a well-formed TECMP CAN data frame (first byte 0) built by the independent builders
    wire::TecmpHdr h;
    h.device = static_cast<uint8_t>(seed);
    h.counter = static_cast<uint16_t>(seed >> 8);
    h.msgType = wire::kTecmpMtData;
    h.dataType = wire::kTecmpDtCan;
    h.interfaceId = seed * 31u;
    h.timestamp = seed * 1000003ull;
    Bytes data = fillBytes(seed, seed % 9);
    Bytes pl = wire::buildTecmpCan(seed & 0x1FFFFFFF, static_cast<uint8_t>(data.size()), data, {});
    h.payloadLength = static_cast<uint16_t>(pl.size());
    Bytes b;
    wire::putTecmpHdr(b, h);
    wire::putBytes(b, pl);
    return b;
}

// Endpoint alphabets: either the plain set {1,2} x {0,5}, or a base endpoint plus endpoints that differ from it in a way an
// endpoint key / hash / comparison could confuse (one byte changed, ids packed with overlapping shifts, swapped bytes).
inline std::array<std::pair<uint16_t, uint8_t>, 4> genEndpointAlphabet()
{
    std::array<std::pair<uint16_t, uint8_t>, 4> alphabet = {{{1, 0}, {1, 5}, {2, 0}, {2, 5}}};
    if (*range<int>(0, 2) == 0)
    {
        uint16_t d = *rc::gen::element<uint16_t>(0x0001, 0x0101, 0x0200, 0x00FF, 0xFF00, 0xFFFF, 0x1234);
        uint8_t st = *rc::gen::element<uint8_t>(0, 1, 2, 0xFF);
        std::vector<std::pair<uint16_t, uint8_t>> rel = {
            {static_cast<uint16_t>(d ^ 0x0100), st},                                             // high device byte differs
            {static_cast<uint16_t>(d ^ 0x0001), st},                                             // low device byte differs
            {d, static_cast<uint8_t>(st ^ 1)},                                                   // stream differs
            {static_cast<uint16_t>(d | (st << 8)), 0},                                           // same value when packed as dev | stream << 8
            {static_cast<uint16_t>(d & 0x00FF), static_cast<uint8_t>((d >> 8) | st)},            // same value when packed as dev | stream << 8
            {static_cast<uint16_t>((d << 8) | (d >> 8)), st},                                    // device bytes swapped
            {static_cast<uint16_t>(st), static_cast<uint8_t>(d)},                                // ids exchanged
            {static_cast<uint16_t>(d + 0x0100), static_cast<uint8_t>(st - 1)}};                  // same sum / xor style keys
        alphabet[0] = {d, st};
        for (int k = 1; k < 4; ++k)
        {
            size_t pick = *range<size_t>(0, rel.size() - 1);
            alphabet[k] = rel[pick];
            rel.erase(rel.begin() + static_cast<long>(pick));
        }
        // endpoints must be pairwise distinct
        for (int a = 0; a < 4; ++a)
            for (int b = 0; b < a; ++b)
                if (alphabet[a] == alphabet[b])
                    alphabet[a].second = static_cast<uint8_t>(alphabet[a].second + 16 + a);
    }
    return alphabet;
}

// Long gaps: endpoint E opens a segmented message, then 17..70 frames of other endpoints pass (mostly first segments of their
// own messages, some continuations and unsegmented frames) before E's next segment arrives - and again before the one after.
// Whatever a decoder does "now and then" to its table (ageing, sweeping, rehashing, evicting) must not reach E's message.
inline rc::Gen<FrameHistory> genLongGapHistory()
{
    return rc::gen::exec([]() {
        FrameHistory hist;
        auto alphabet = genEndpointAlphabet();
        const int nOthers = *range<int>(1, 3);
        uint16_t seq[4];
        bool open[4] = {false, false, false, false};
        for (auto& q : seq)
            q = *rc::gen::element<uint16_t>(0, 1, 100, 65500, 65534, 65535, 777);
        auto frameOf = [&](int e, uint8_t seg) {
            FrameRecipe f;
            f.dev = alphabet[static_cast<size_t>(e)].first;
            f.stream = alphabet[static_cast<size_t>(e)].second;
            f.seq = seq[e]++;
            f.msgs.push_back(genMsg(seg, 24));
            return f;
        };
        const int eSegments = *range<int>(2, 4);
        for (int k = 0; k < eSegments; ++k)
        {
            hist.frames.push_back(frameOf(0, k == 0 ? 1 : k == eSegments - 1 ? 3 : 2));
            if (k == eSegments - 1)
                break;
            int gap = *rc::gen::weightedOneOf<int>({{6, range<int>(17, 40)}, {2, range<int>(41, 70)}, {2, range<int>(1, 16)}, {1, range<int>(1030, 1300)}});
            for (int g = 0; g < gap; ++g)
            {
                int o = 1 + *range<int>(0, nOthers - 1);
                int what = *rc::gen::weightedElement<int>({{6, 0}, {3, 1}, {1, 2}});
                if (what == 0)
                {
                    hist.frames.push_back(frameOf(o, 1));
                    open[o] = true;
                }
                else if (what == 1)
                {
                    hist.frames.push_back(frameOf(o, open[o] ? 3 : 1));
                    open[o] = !open[o];
                }
                else
                {
                    hist.frames.push_back(frameOf(o, 0));
                    open[o] = false;
                }
            }
        }
        return hist;
    });
}

inline rc::Gen<FrameHistory> genFrameHistory(const HistoryGenParams& params)
{
    return rc::gen::exec([params]() {
        FrameHistory hist;
        auto alphabet = genEndpointAlphabet();
        const bool big = params.bigSegmentHistories > 0 && *range<int>(0, params.bigSegmentHistories - 1) == 0;
        int nEp = *range<int>(1, big ? 2 : std::min(params.endpoints, 4));
        std::vector<GenEndpointState> st(static_cast<size_t>(nEp));
        if (params.manyEndpoints > 0 && !big && *range<int>(0, params.manyEndpoints - 1) == 0)
        {
            int k = *rc::gen::weightedOneOf<int>({{3, range<int>(60, 70)}, {1, range<int>(250, 260)}, {1, range<int>(1020, 1030)}});
            uint16_t base = *rc::gen::element<uint16_t>(0x0100, 0x4000, 1000, 0xF000);
            for (int i = 0; i < k; ++i)
            {
                FrameRecipe f;
                f.dev = static_cast<uint16_t>(base + i);
                f.stream = static_cast<uint8_t>(i * 7);
                f.seq = static_cast<uint16_t>(i);
                f.msgs.push_back(genMsg(1, 24));
                hist.frames.push_back(std::move(f));
            }
        }
        int n = *range<int>(1, params.maxFrames);
        for (int i = 0; i < n; ++i)
        {
            FrameRecipe f;
            int e = *range<int>(0, nEp - 1);
            GenEndpointState& s = st[static_cast<size_t>(e)];
            if (!s.known)
            {
                s.nextSeq = *rc::gen::element<uint16_t>(0, 1, 100, 65533, 65534, 65535, 777);
                s.known = true;
            }
            f.dev = alphabet[e].first;
            f.stream = alphabet[e].second;
            f.version = *rc::gen::weightedElement<uint8_t>({{8, 1}, {1, 2}, {1, 255}});
            f.msgType = *rc::gen::weightedElement<uint8_t>({{8, 1}, {1, 3}, {1, 2}, {1, 0xFF}});
            f.seq = s.nextSeq;
            // shapes: 0 unsegmented, 1 first, 2 matching intermediary, 3 matching last, 4 mismatching continuation,
            // 5 invalid message, 6 TECMP, 7 short buffer, 8 header-only, 9 garbage, 10 mixed (unsegmented + segment + more),
            // 11 aggregated frame that ends with a segment: unsegmented message(s), then a segment that would fit the open message
            int shape = big ? *rc::gen::weightedElement<int>({{1, 0}, {4, 1}, {9, 2}, {4, 3}, {1, 4}, {1, 5}})
                            : *rc::gen::weightedElement<int>({{4, 0}, {5, 1}, {5, 2}, {5, 3}, {3, 4}, {3, 5},
                                                        {size_t(params.allowTecmp), 6}, {1, 7},
                                                        {size_t(params.allowHeaderOnly), 8},
                                                        {size_t(params.allowGarbage), 9}, {size_t(params.allowGarbage), 10}, {2, 11}});
            bool advance = true;
            switch (shape)
            {
                case 0:
                {
                    int k = *range<int>(1, 3);
                    for (int j = 0; j < k; ++j)
                        f.msgs.push_back(genMsg(0, params.maxSegLen));
                    s.open = false;
                    break;
                }
                case 1:
                    f.msgs.push_back(genMsg(1, params.maxSegLen));
                    s.open = true;
                    s.version = f.version;
                    s.msgType = f.msgType;
                    break;
                case 2:
                case 3:
                    // continuation that matches the open message if there is one (otherwise an orphan)
                    if (s.open)
                    {
                        f.version = s.version;
                        f.msgType = s.msgType;
                    }
                    f.msgs.push_back(genMsg(static_cast<uint8_t>(shape), params.maxSegLen));
                    if (shape == 3)
                        s.open = false;
                    break;
                case 4:
                {
                    f.msgs.push_back(genMsg(*rc::gen::element<uint8_t>(2, 3), params.maxSegLen));
                    int what = *range<int>(0, 2);
                    if (s.open)
                    {
                        f.version = s.version;
                        f.msgType = s.msgType;
                    }
                    if (what == 0)
                        f.seq = static_cast<uint16_t>(f.seq + *rc::gen::element<int>(-1, 1, 2, 256, -256));
                    else if (what == 1)
                        f.version = static_cast<uint8_t>(f.version == 255 ? 1 : f.version + 1);
                    else
                        f.msgType = static_cast<uint8_t>(f.msgType == 1 ? 3 : 1);
                    s.open = false;
                    break;
                }
                case 5:
                {
                    MsgRecipe m = genMsg(*rc::gen::element<uint8_t>(0, 0, 1, 2, 3), params.maxSegLen);
                    int what = *range<int>(0, 3);
                    if (what == 0)
                        m.flags |= 0x40;
                    else if (what == 1)
                        m.ptype = 0;
                    else if (what == 2)
                        m.declared = static_cast<int32_t>(m.len + 1 + *range<uint32_t>(0, 300));
                    f.msgs.push_back(m);
                    if (what == 3)
                        f.truncateAt = *range<int32_t>(9, 23);
                    s.open = false;
                    break;
                }
                case 6:
                    f.kind = 1;
                    f.raw = tecmpSample(*rc::gen::arbitrary<uint32_t>());
                    advance = false;
                    break;
                case 7:
                    f.kind = 1;
                    f.raw = *bytesOfLen(*range<size_t>(0, 7));
                    advance = false;
                    break;
                case 8:
                    break;  // header only
                case 9:
                {
                    f.kind = 1;
                    f.raw = *bytesOfLen(*range<size_t>(8, 80));
                    if (f.raw[0] == 0)
                        f.raw[0] = 1;
                    // keep it on one of the endpoints so that it can interfere
                    f.raw[2] = static_cast<uint8_t>(f.dev >> 8);
                    f.raw[3] = static_cast<uint8_t>(f.dev);
                    f.raw[5] = f.stream;
                    s.open = false;
                    break;
                }
                case 11:
                {
                    // the unsegmented messages supersede the open message; the segment behind them (same frame, hence the counter
                    // the open message expects) must then find nothing to continue
                    if (s.open)
                    {
                        f.version = s.version;
                        f.msgType = s.msgType;
                    }
                    int k = *range<int>(1, 2);
                    for (int j = 0; j < k; ++j)
                        f.msgs.push_back(genMsg(0, params.maxSegLen));
                    uint8_t seg = *rc::gen::weightedElement<uint8_t>({{3, 2}, {3, 3}, {1, 1}});
                    f.msgs.push_back(genMsg(seg, params.maxSegLen));
                    s.open = seg == 1;
                    if (seg == 1)
                    {
                        s.version = f.version;
                        s.msgType = f.msgType;
                    }
                    break;
                }
                case 10:
                {
                    f.msgs.push_back(genMsg(0, params.maxSegLen));
                    f.msgs.push_back(genMsg(*rc::gen::element<uint8_t>(1, 2, 3), params.maxSegLen));
                    if (*range<int>(0, 1))
                        f.msgs.push_back(genMsg(0, params.maxSegLen));
                    s.open = false;
                    break;
                }
            }
            // optional trailing bytes after a single segment
            if ((shape >= 1 && shape <= 4) && *range<int>(0, 3) == 0)
            {
                int t = *range<int>(0, 2);
                if (t == 0)
                    f.trailing.assign(*range<size_t>(1, 48), 0);
                else if (t == 1)
                    f.trailing = *bytesOfLen(*range<size_t>(1, 15));
                else
                {
                    f.trailing = *bytesOfLen(*range<size_t>(16, 40));
                    f.trailing[13] = 0;
                }
            }
            if (big && shape >= 1 && shape <= 3 && !f.msgs.empty())
                f.msgs.back().len = *rc::gen::weightedOneOf<uint32_t>({{4, range<uint32_t>(20000, 40000)}, {1, range<uint32_t>(60000, 65535)}, {1, range<uint32_t>(600, 1500)}});
            if (advance)
                s.nextSeq = static_cast<uint16_t>(f.seq + 1);
            hist.frames.push_back(std::move(f));
        }
        // one history in five: frames that arrive twice - a copy of an earlier frame 1..4 positions later (mirror ports, redundant
        // links); the endpoint's own traffic continues as if nothing had happened
        if (hist.frames.size() >= 2 && *range<int>(0, 4) == 0)
        {
            int k = *range<int>(1, 3);
            for (int j = 0; j < k; ++j)
            {
                size_t i = *range<size_t>(0, hist.frames.size() - 1);
                size_t at = std::min(hist.frames.size(), i + *range<size_t>(1, 4));
                FrameRecipe copy = hist.frames[i];
                hist.frames.insert(hist.frames.begin() + static_cast<long>(at), copy);
            }
        }
        if (params.closeAtEnd)
        {
            for (int e = 0; e < nEp; ++e)
            {
                FrameRecipe f;
                f.dev = alphabet[e].first;
                f.stream = alphabet[e].second;
                f.seq = st[static_cast<size_t>(e)].nextSeq;
                f.msgs.push_back(genMsg(0, 8));
                hist.frames.push_back(std::move(f));
            }
        }
        return hist;
    });
}

}  // namespace vf
