// Status tracker operations shared by C16 and the C19 / C20 workloads.
#pragma once

#include "lib.h"

namespace vf
{

struct StatusOp
{
    uint8_t kind{0};  // 0 update(CM status), 1 update(IF status), 2 update(data packet), 3 removeDeviceById, 4 removeInterfaceById, 5 clear
    uint16_t dev{0};
    uint32_t iface{0};
    uint8_t viaDecoder{0};
    void io(Ar& a)
    {
        a.num("kind", kind);
        a.num("dev", dev);
        a.num("iface", iface);
        a.num("viaDecoder", viaDecoder);
    }
};
inline lib::Packet makeStatusUpdate(const StatusOp& op, size_t index)
{
    lib::Packet p;
    uint8_t msgType = wire::kMtStatus;
    Bytes raw;
    uint8_t ptype = 0;
    if (op.kind == 0)
    {
        lib::CaptureModulePayload cm;
        cm.setUptime(1000 + index);
        cm.setData("device " + std::to_string(op.dev), "sn" + std::to_string(index), "hw1", "sw" + std::to_string(index), {static_cast<uint8_t>(index)});
        p.setPayload(cm);
        raw.assign(cm.getRawPayload(), cm.getRawPayload() + cm.getLength());
        ptype = wire::kPtCmStatus;
    }
    else if (op.kind == 1)
    {
        lib::InterfacePayload ip;
        uint8_t ids[3] = {1, 2, static_cast<uint8_t>(index)};
        ip.setData(ids, 3, nullptr, 0);
        ip.setInterfaceId(op.iface);
        ip.setMsgTotalRx(static_cast<uint32_t>(index));
        ip.setInterfaceStatus(lib::InterfacePayload::InterfaceStatus::linkStatusUp);
        p.setPayload(ip);
        raw.assign(ip.getRawPayload(), ip.getRawPayload() + ip.getLength());
        ptype = wire::kPtIfStatus;
    }
    else
    {
        lib::CanPayload can;
        uint8_t d[2] = {static_cast<uint8_t>(index), 7};
        can.setData(d, 2);
        can.setId(0x100 + static_cast<uint32_t>(index));
        p.setPayload(can);
        raw.assign(can.getRawPayload(), can.getRawPayload() + can.getLength());
        ptype = wire::kPtCan;
        msgType = wire::kMtData;
    }
    p.setDeviceId(op.dev);
    p.setStreamId(3);
    p.setTimestamp(index);
    p.setVendorId(static_cast<uint16_t>(index));
    if (msgType == wire::kMtData)
        p.setInterfaceId(op.iface);
    if (op.viaDecoder)
    {
        // the real use: packets come out of the decoder
        Bytes frame;
        wire::CmpHdr h{1, 0, op.dev, msgType, 3, static_cast<uint16_t>(index)};
        wire::putCmpHdr(frame, h);
        wire::MsgHdr mh;
        mh.timestamp = index;
        mh.idWord = msgType == wire::kMtData ? op.iface : static_cast<uint32_t>(index & 0xFFFF);
        mh.payloadType = ptype;
        mh.length = static_cast<uint16_t>(raw.size());
        wire::putMsgHdr(frame, mh);
        wire::putBytes(frame, raw);
        lib::Decoder dec;
        auto got = decodeOwned(dec, frame);
        if (got.size() == 1 && got[0] && got[0]->isValid())
            return *got[0];
    }
    return p;
}


}  // namespace vf
