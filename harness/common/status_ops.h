// Status tracker operations shared by C16 and the C19 / C20 workloads.
#pragma once

#include "lib.h"

namespace vf
{

struct StatusOp
{
    uint8_t kind{0};  // 0 update(CM status), 1 update(IF status), 2 update(data packet), 3 removeDeviceById, 4 removeInterfaceById, 5 clear,
                      // 6 update(message of another kind: other status payload types, vendor / control messages, invalid-typed payloads)
    uint16_t dev{0};
    uint32_t iface{0};
    uint8_t viaDecoder{0};
    uint8_t content{0};  // 0: the payload content is derived from the op's position (every update differs); 1..3: one of three fixed
                         // contents per (device, interface) - an idle interface reports the same payload again, only header fields differ
    uint16_t burst{0};   // kinds 0 / 1 only: the update is followed by `burst` further updates for the next device ids (kind 0) /
                         // interface ids (kind 1) - many entries alive at once (the statement has no bound on their number)
    void io(Ar& a)
    {
        a.num("kind", kind);
        a.num("dev", dev);
        a.num("iface", iface);
        a.num("viaDecoder", viaDecoder);
        a.optionalNum("content", content);
        a.optionalNum("burst", burst);
    }
};
inline lib::Packet makeStatusUpdate(const StatusOp& op, size_t position)
{
    // payload content: position-derived or one of the fixed variants; header fields (version, vendor id, flags, timestamp) always
    // follow the position, so two updates with the same payload still differ as packets
    const size_t index = op.content ? 100000 + op.content : position;
    lib::Packet p;
    uint8_t msgType = wire::kMtStatus;
    Bytes raw;
    uint8_t ptype = 0;
    if (op.kind == 0)
    {
        lib::CaptureModulePayload cm;
        cm.setUptime(1000 + index);
        cm.setData("device " + std::to_string(op.dev), "sn" + std::to_string(index), "hw1", "sw" + std::to_string(index), {static_cast<uint8_t>(index)});
        p.setPayload(cm);
        raw.assign(cm.getRawPayload(), cm.getRawPayload() + cm.getLength());
        ptype = wire::kPtCmStatus;
    }
    else if (op.kind == 1)
    {
        lib::InterfacePayload ip;
        uint8_t ids[3] = {1, 2, static_cast<uint8_t>(index)};
        ip.setData(ids, 3, nullptr, 0);
        ip.setInterfaceId(op.iface);
        ip.setMsgTotalRx(static_cast<uint32_t>(index));
        ip.setInterfaceStatus(lib::InterfacePayload::InterfaceStatus::linkStatusUp);
        p.setPayload(ip);
        raw.assign(ip.getRawPayload(), ip.getRawPayload() + ip.getLength());
        ptype = wire::kPtIfStatus;
    }
    else if (op.kind == 6)
    {
        // other kinds: the first four payload bytes spell the interface id of the op, so that a tracker which misreads the
        // payload as an interface status would hit a tracked entry
        static const uint32_t types[] = {0x0303, 0x0304, 0x0305, 0x03FF, 0x0330, 0xFF01, 0xFF02, 0x0201, 0x0202, 0x0000, 0x0300};
        uint32_t t = types[(index + op.iface + op.dev) % 11];
        Bytes b;
        wire::put32(b, op.iface);
        wire::putBytes(b, fillBytes(static_cast<uint32_t>(index), 44));
        p.setPayload(lib::Payload(lib::PayloadType(t), b.data(), b.size()));
        raw = b;
        ptype = static_cast<uint8_t>(t);
        msgType = static_cast<uint8_t>(t >> 8);
    }
    else
    {
        lib::CanPayload can;
        uint8_t d[2] = {static_cast<uint8_t>(index), 7};
        can.setData(d, 2);
        can.setId(0x100 + static_cast<uint32_t>(index));
        p.setPayload(can);
        raw.assign(can.getRawPayload(), can.getRawPayload() + can.getLength());
        ptype = wire::kPtCan;
        msgType = wire::kMtData;
    }
    const uint8_t version = static_cast<uint8_t>(1 + position % 3);
    const uint8_t flags = static_cast<uint8_t>((position * 5) & 0x33);
    p.setDeviceId(op.dev);
    p.setStreamId(static_cast<uint8_t>(3 + position % 2));
    // header fields follow the position but not monotonically: a later update may carry a lower timestamp, counter or vendor id
    // than an earlier one ("latest" means latest call, not largest field)
    const uint64_t ts = mix(static_cast<uint32_t>(position), 5) % 100000u;
    const uint16_t vendor = static_cast<uint16_t>(mix(static_cast<uint32_t>(position), 7));
    p.setTimestamp(ts);
    p.setVendorId(vendor);
    p.setVersion(version);
    p.setCommonFlags(flags);
    p.setSequenceCounter(static_cast<uint16_t>(mix(static_cast<uint32_t>(position), 6)));
    if (msgType == wire::kMtData)
        p.setInterfaceId(op.iface);
    if (op.viaDecoder && msgType != 0 && ptype != 0)
    {
        // the real use: packets come out of the decoder
        Bytes frame;
        wire::CmpHdr h{version, 0, op.dev, msgType, static_cast<uint8_t>(3 + position % 2), static_cast<uint16_t>(mix(static_cast<uint32_t>(position), 6))};
        wire::putCmpHdr(frame, h);
        wire::MsgHdr mh;
        mh.timestamp = ts;
        mh.flags = flags;
        mh.idWord = msgType == wire::kMtData ? op.iface : static_cast<uint32_t>(vendor);
        mh.payloadType = ptype;
        mh.length = static_cast<uint16_t>(raw.size());
        wire::putMsgHdr(frame, mh);
        wire::putBytes(frame, raw);
        lib::Decoder dec;
        auto got = decodeOwned(dec, frame);
        if (got.size() == 1 && got[0] && got[0]->isValid() && got[0]->getPayload().getType().getType() == ((static_cast<uint32_t>(msgType) << 8) | ptype))
            return *got[0];
    }
    return p;
}


}  // namespace vf
