// Field tables for every header / payload class (C11 field-map model, C12 external layout table).
//
// The wire positions below (byte offset and width of each big-endian "cell", bit position and width of each field inside
// it) are written from the ASAM CMP 1.0 / TECMP layouts - not from the library's headers - and are the trusted base of C12.
// A field is a view of `bits` bits at `shift` of its cell; several fields may view the same cell (flag word and single
// flags, interface id and vendor id, CAN id word, CRC word).
#pragma once

#include <asam_cmp/tecmp_can_payload.h>
#include <asam_cmp/tecmp_capture_module_payload.h>
#include <asam_cmp/tecmp_header.h>
#include <asam_cmp/tecmp_interface_payload.h>
#include <asam_cmp/tecmp_lin_payload.h>

#include "lib.h"

namespace vf
{

struct Cell
{
    int offset;  // byte offset in the raw image, -1 = the cell has no wire image (Packet members)
    int width;   // bytes (1, 2, 4, 8)
};

template <class Obj>
struct FieldT
{
    std::string name;
    int cell{0};
    int shift{0};
    int bits{8};
    std::function<void(Obj&, uint64_t)> set;
    std::function<uint64_t(const Obj&)> get;
    std::vector<uint64_t> allowed;  // non-empty: the only in-range values (enumerations)
    uint64_t mask() const
    {
        return bits >= 64 ? ~0ull : ((1ull << bits) - 1);
    }
};

// a setter that writes a run of raw header bytes at once (TECMP status payloads)
template <class Obj>
struct GroupT
{
    std::string name;
    int offset{0};
    int maxLength{0};
    bool takesLength{false};  // false: always writes maxLength bytes
    std::function<void(Obj&, const uint8_t*, uint8_t)> set;
};

template <class Obj>
struct DescT
{
    std::string name;
    size_t headerSize{0};          // size the standard prescribes for the fixed header (0 = none)
    std::function<size_t()> actualHeaderSize;  // sizeof the library's header class / default length
    std::vector<Cell> cells;
    std::vector<FieldT<Obj>> fields;
    std::vector<GroupT<Obj>> groups;
    // payload classes with a data setter: setData(bytes) replaces the data behind the header; the cells listed in dataEffects
    // take the value the function returns for the new length (false: no value is prescribed - the model re-reads the getter)
    std::function<void(Obj&, const Bytes&)> dataSetter;
    std::vector<std::pair<int, std::function<bool(size_t, uint64_t&)>>> dataEffects;
    size_t maxData{0};
    int lengthCell{-1};  // the cell that holds the data length (prior images: half of them get a length consistent with the data area)
    // capture-module / interface status: setData of the length-prefixed variable part derived from `value`; applies it and checks
    // that every getter of the variable part returns exactly what was supplied (the raw layout is C12's and C13's business)
    std::function<Verdict(Obj&, uint64_t value)> varSetter;
    // Packet only: replaces the payload by one derived from `value` and returns what `data` must read afterwards
    std::function<Bytes(Obj&, uint64_t value)> payloadSetter;
    std::function<Obj(const Bytes& image)> fromImage;  // object whose raw header bytes are `image` (+ optional data)
    std::function<Bytes(const Obj&)> image;            // raw header bytes
    std::function<Bytes(const Obj&)> data;             // data bytes that no setter may touch
    std::function<Obj()> makeDefault;
    bool hasImage{true};
};

#define VF_FIELD(NAME, CELL, SHIFT, BITS, SETEXPR, GETEXPR)                                                          \
    d.fields.push_back({NAME, CELL, SHIFT, BITS, [](Obj& o, uint64_t v) { (void) v; SETEXPR; },                      \
                        [](const Obj& o) -> uint64_t { return static_cast<uint64_t>(GETEXPR); }, {}})

inline uint64_t getCellBE(const Bytes& img, const Cell& c)
{
    uint64_t v = 0;
    for (int i = 0; i < c.width; ++i)
        v = (v << 8) | img[static_cast<size_t>(c.offset + i)];
    return v;
}
inline void setCellBE(Bytes& img, const Cell& c, uint64_t v)
{
    for (int i = c.width - 1; i >= 0; --i)
    {
        img[static_cast<size_t>(c.offset + i)] = static_cast<uint8_t>(v);
        v >>= 8;
    }
}

// ---------------------------------------------------------------------------------------------------
// packed header classes are filled by memcpy; payload classes by their (data, size) constructors
// ---------------------------------------------------------------------------------------------------
template <class H>
H headerFromImage(const Bytes& image)
{
    H h;
    static_assert(std::is_trivially_copyable<H>::value, "packed header");
    memcpy(&h, image.data(), std::min(image.size(), sizeof(H)));
    return h;
}
template <class H>
Bytes headerImage(const H& h)
{
    Bytes b(sizeof(H));
    memcpy(b.data(), &h, sizeof(H));
    return b;
}
template <class P>
Bytes payloadImage(const P& p, size_t headerSize)
{
    size_t n = std::min(headerSize, p.getLength());
    return Bytes(p.getRawPayload(), p.getRawPayload() + n);
}
template <class P>
Bytes payloadData(const P& p, size_t headerSize)
{
    if (p.getLength() <= headerSize)
        return {};
    return Bytes(p.getRawPayload() + headerSize, p.getRawPayload() + p.getLength());
}

inline void addFlagBits16(std::vector<std::pair<std::string, uint16_t>>& out, std::initializer_list<std::pair<const char*, uint16_t>> l)
{
    for (const auto& p : l)
        out.push_back({p.first, p.second});
}
inline int bitIndex(uint32_t mask)
{
    int i = 0;
    while (!((mask >> i) & 1))
        ++i;
    return i;
}

// ---------------------------------------------------------------------------------------------------
// CMP frame header: version(1) reserved(1) deviceId(2) messageType(1) streamId(1) sequenceCounter(2)
// ---------------------------------------------------------------------------------------------------
inline DescT<lib::CmpHeader> descCmpHeader()
{
    using Obj = lib::CmpHeader;
    DescT<Obj> d;
    d.name = "CmpHeader";
    d.headerSize = 8;
    d.actualHeaderSize = [] { return sizeof(Obj); };
    d.cells = {{0, 1}, {2, 2}, {4, 1}, {5, 1}, {6, 2}};
    VF_FIELD("version", 0, 0, 8, o.setVersion(static_cast<uint8_t>(v)), o.getVersion());
    VF_FIELD("deviceId", 1, 0, 16, o.setDeviceId(static_cast<uint16_t>(v)), o.getDeviceId());
    VF_FIELD("messageType", 2, 0, 8, o.setMessageType(static_cast<Obj::MessageType>(v)), o.getMessageType());
    VF_FIELD("streamId", 3, 0, 8, o.setStreamId(static_cast<uint8_t>(v)), o.getStreamId());
    VF_FIELD("sequenceCounter", 4, 0, 16, o.setSequenceCounter(static_cast<uint16_t>(v)), o.getSequenceCounter());
    d.fromImage = headerFromImage<Obj>;
    d.image = headerImage<Obj>;
    d.data = [](const Obj&) { return Bytes{}; };
    d.makeDefault = [] { return Obj{}; };
    return d;
}

// Message header: timestamp(8) interfaceId(4) | reserved(2) vendorId(2), flags(1) payloadType(1) payloadLength(2)
inline DescT<lib::MessageHeader> descMessageHeader()
{
    using Obj = lib::MessageHeader;
    using CF = lib::MessageHeader::CommonFlags;
    DescT<Obj> d;
    d.name = "MessageHeader";
    d.headerSize = 16;
    d.actualHeaderSize = [] { return sizeof(Obj); };
    d.cells = {{0, 8}, {8, 4}, {12, 1}, {13, 1}, {14, 2}};
    VF_FIELD("timestamp", 0, 0, 64, o.setTimestamp(v), o.getTimestamp());
    VF_FIELD("interfaceId", 1, 0, 32, o.setInterfaceId(static_cast<uint32_t>(v)), o.getInterfaceId());
    VF_FIELD("vendorId", 1, 0, 16, o.setVendorId(static_cast<uint16_t>(v)), o.getVendorId());
    VF_FIELD("commonFlags", 2, 0, 8, o.setCommonFlags(static_cast<uint8_t>(v)), o.getCommonFlags());
    VF_FIELD("flag.recalc", 2, 0, 1, o.setCommonFlag(CF::recalc, v != 0), o.getCommonFlag(CF::recalc));
    VF_FIELD("flag.insync", 2, 1, 1, o.setCommonFlag(CF::insync, v != 0), o.getCommonFlag(CF::insync));
    VF_FIELD("segmentType", 2, 2, 2, o.setSegmentType(static_cast<Obj::SegmentType>(v << 2)), (static_cast<unsigned>(o.getSegmentType()) >> 2));
    VF_FIELD("flag.diOnIf", 2, 4, 1, o.setCommonFlag(CF::diOnIf, v != 0), o.getCommonFlag(CF::diOnIf));
    VF_FIELD("flag.overflow", 2, 5, 1, o.setCommonFlag(CF::overflow, v != 0), o.getCommonFlag(CF::overflow));
    VF_FIELD("flag.errorInPayload", 2, 6, 1, o.setCommonFlag(CF::errorInPayload, v != 0), o.getCommonFlag(CF::errorInPayload));
    // the two-bit enumerator CommonFlags::seg used as a flag mask: setting sets both bits, clearing clears both
    d.fields.push_back({"flag.seg(both bits)", 2, 2, 2, [](Obj& o, uint64_t v) { o.setCommonFlag(CF::seg, v != 0); },
                        [](const Obj& o) -> uint64_t { return (o.getCommonFlags() >> 2) & 3u; }, {0, 3}});
    VF_FIELD("payloadType", 3, 0, 8, o.setPayloadType(static_cast<uint8_t>(v)), o.getPayloadType());
    VF_FIELD("payloadLength", 4, 0, 16, o.setPayloadLength(static_cast<uint16_t>(v)), o.getPayloadLength());
    d.fromImage = headerFromImage<Obj>;
    d.image = headerImage<Obj>;
    d.data = [](const Obj&) { return Bytes{}; };
    d.makeDefault = [] { return Obj{}; };
    return d;
}

// Packet: plain members, no raw image (raw header serialisation is checked separately in C12)
inline DescT<lib::Packet> descPacket()
{
    using Obj = lib::Packet;
    using CF = lib::MessageHeader::CommonFlags;
    DescT<Obj> d;
    d.name = "Packet";
    d.hasImage = false;
    d.actualHeaderSize = [] { return size_t(0); };
    d.cells = {{-1, 1}, {-1, 2}, {-1, 1}, {-1, 2}, {-1, 8}, {-1, 4}, {-1, 2}, {-1, 1}, {-1, 1}};
    VF_FIELD("version", 0, 0, 8, o.setVersion(static_cast<uint8_t>(v)), o.getVersion());
    VF_FIELD("deviceId", 1, 0, 16, o.setDeviceId(static_cast<uint16_t>(v)), o.getDeviceId());
    VF_FIELD("streamId", 2, 0, 8, o.setStreamId(static_cast<uint8_t>(v)), o.getStreamId());
    VF_FIELD("sequenceCounter", 3, 0, 16, o.setSequenceCounter(static_cast<uint16_t>(v)), o.getSequenceCounter());
    VF_FIELD("timestamp", 4, 0, 64, o.setTimestamp(v), o.getTimestamp());
    VF_FIELD("interfaceId", 5, 0, 32, o.setInterfaceId(static_cast<uint32_t>(v)), o.getInterfaceId());
    VF_FIELD("vendorId", 6, 0, 16, o.setVendorId(static_cast<uint16_t>(v)), o.getVendorId());
    VF_FIELD("commonFlags", 7, 0, 8, o.setCommonFlags(static_cast<uint8_t>(v)), o.getCommonFlags());
    VF_FIELD("flag.recalc", 7, 0, 1, o.setCommonFlag(CF::recalc, v != 0), o.getCommonFlag(CF::recalc));
    VF_FIELD("flag.insync", 7, 1, 1, o.setCommonFlag(CF::insync, v != 0), o.getCommonFlag(CF::insync));
    VF_FIELD("flag.diOnIf", 7, 4, 1, o.setCommonFlag(CF::diOnIf, v != 0), o.getCommonFlag(CF::diOnIf));
    VF_FIELD("flag.overflow", 7, 5, 1, o.setCommonFlag(CF::overflow, v != 0), o.getCommonFlag(CF::overflow));
    VF_FIELD("flag.errorInPayload", 7, 6, 1, o.setCommonFlag(CF::errorInPayload, v != 0), o.getCommonFlag(CF::errorInPayload));
    d.fields.push_back({"flag.seg(both bits)", 7, 2, 2, [](Obj& o, uint64_t v) { o.setCommonFlag(CF::seg, v != 0); },
                        [](const Obj& o) -> uint64_t { return (o.getCommonFlags() >> 2) & 3u; }, {0, 3}});
    VF_FIELD("segmentType", 8, 2, 2, o.setSegmentType(static_cast<lib::MessageHeader::SegmentType>(v << 2)), (static_cast<unsigned>(o.getSegmentType()) >> 2));
    d.fromImage = [](const Bytes& image) {
        // prior state through the API: a packet with a payload and members taken from the image bytes
        lib::Packet p;
        Bytes pl = fillBytes(image.empty() ? 1 : image[0], 5);
        p.setPayload(lib::Payload(lib::PayloadType(lib::CmpHeader::MessageType::data, 0x20), pl.data(), pl.size()));
        auto at = [&](size_t i) { return i < image.size() ? image[i] : uint8_t(0); };
        p.setVersion(at(0));
        p.setDeviceId(static_cast<uint16_t>((at(1) << 8) | at(2)));
        p.setStreamId(at(3));
        p.setSequenceCounter(static_cast<uint16_t>((at(4) << 8) | at(5)));
        uint64_t ts = 0;
        for (size_t i = 6; i < 14; ++i)
            ts = (ts << 8) | at(i);
        p.setTimestamp(ts);
        p.setInterfaceId((static_cast<uint32_t>(at(14)) << 24) | (at(15) << 16) | (at(16) << 8) | at(17));
        p.setVendorId(static_cast<uint16_t>((at(18) << 8) | at(19)));
        p.setCommonFlags(at(20));
        p.setSegmentType(static_cast<lib::MessageHeader::SegmentType>((at(21) & 3) << 2));
        return p;
    };
    d.image = [](const Obj&) { return Bytes{}; };
    d.data = [](const Obj& o) {
        Bytes b;
        if (o.verifHasPayload())
        {
            const auto& pl = o.getPayload();
            uint32_t t = pl.getType().getType();
            b = {static_cast<uint8_t>(t >> 8), static_cast<uint8_t>(t)};
            b.insert(b.end(), pl.getRawPayload(), pl.getRawPayload() + pl.getLength());
        }
        return b;
    };
    // setPayload is a setter like the others: the payload field reads back exactly what was passed - any type the factory knows,
    // any bytes (also ones the wire validators reject: error flags, inner lengths beyond the data), any length
    d.payloadSetter = [](Obj& o, uint64_t v) {
        static const uint32_t types[] = {lib::PayloadType::can,      lib::PayloadType::canFd,     lib::PayloadType::lin,         lib::PayloadType::analog,
                                         lib::PayloadType::ethernet, lib::PayloadType::cmStatMsg, lib::PayloadType::ifStatMsg,   lib::PayloadType::userDefined,
                                         lib::PayloadType::flexRay,  lib::PayloadType::vendorStatMsg, 0x0201u /* control */, 0xFF20u /* vendor */};
        const uint32_t t = types[(v & 0x7F) % (sizeof(types) / sizeof(types[0]))];  // bits 0..6 type, 7 all-ones, 8..15 length, 16.. content
        const size_t n = static_cast<size_t>((v >> 8) % 80);
        Bytes b = fillBytes(static_cast<uint32_t>(v >> 16), n);
        if ((v >> 7) & 1)
            std::fill(b.begin(), b.end(), uint8_t(0xFF));  // every flag, every length field at its maximum
        static const uint8_t dummy = 0;
        o.setPayload(lib::Payload(lib::PayloadType(t), b.empty() ? &dummy : b.data(), b.size()));
        Bytes expect = {static_cast<uint8_t>(t >> 8), static_cast<uint8_t>(t)};
        expect.insert(expect.end(), b.begin(), b.end());
        return expect;
    };
    d.makeDefault = [] { return Obj{}; };
    return d;
}

// PayloadType value class: one 32-bit cell
inline DescT<lib::PayloadType> descPayloadType()
{
    using Obj = lib::PayloadType;
    DescT<Obj> d;
    d.name = "PayloadType";
    d.hasImage = false;
    d.actualHeaderSize = [] { return size_t(0); };
    d.cells = {{-1, 4}};
    VF_FIELD("type", 0, 0, 32, o.setType(static_cast<uint32_t>(v)), o.getType());
    VF_FIELD("messageType", 0, 8, 8, o.setMessageType(static_cast<lib::CmpHeader::MessageType>(v)), o.getMessageType());
    VF_FIELD("rawPayloadType", 0, 0, 8, o.setRawPayloadType(static_cast<uint8_t>(v)), o.getRawPayloadType());
    d.fromImage = [](const Bytes& image) {
        uint32_t t = 0;
        for (size_t i = 0; i < 4 && i < image.size(); ++i)
            t = (t << 8) | image[i];
        return Obj(t);
    };
    d.image = [](const Obj&) { return Bytes{}; };
    d.data = [](const Obj&) { return Bytes{}; };
    d.makeDefault = [] { return Obj(0u); };
    return d;
}

// Payload base class: type setters must not touch the data
inline DescT<lib::Payload> descPayload()
{
    using Obj = lib::Payload;
    DescT<Obj> d;
    d.name = "Payload";
    d.hasImage = false;
    d.actualHeaderSize = [] { return size_t(0); };
    d.cells = {{-1, 4}};
    VF_FIELD("type", 0, 0, 32, o.setType(lib::PayloadType(static_cast<uint32_t>(v))), o.getType().getType());
    VF_FIELD("messageType", 0, 8, 8, o.setMessageType(static_cast<lib::CmpHeader::MessageType>(v)), o.getMessageType());
    VF_FIELD("rawPayloadType", 0, 0, 8, o.setRawPayloadType(static_cast<uint8_t>(v)), o.getRawPayloadType());
    d.fromImage = [](const Bytes& image) {
        uint32_t t = 0;
        for (size_t i = 0; i < 4 && i < image.size(); ++i)
            t = (t << 8) | image[i];
        if (t == 0)
            t = 0x0120;
        return Obj(lib::PayloadType(t), image.data(), image.size());
    };
    d.image = [](const Obj&) { return Bytes{}; };
    d.data = [](const Obj& o) { return Bytes(o.getRawPayload(), o.getRawPayload() + o.getLength()); };
    d.makeDefault = [] {
        static const uint8_t z[4] = {0, 0, 0, 0};
        return Obj(lib::PayloadType(0x0120u), z, 4);
    };
    return d;
}

// ---------------------------------------------------------------------------------------------------
// CAN / CAN-FD: flags(2) reserved(2) id(4) crc(4) errorPosition(2) dlc(1) dataLength(1)
// ---------------------------------------------------------------------------------------------------
static const std::pair<const char*, uint16_t> kCanFlagBits[] = {
    {"crcErr", 0x0001}, {"ackErr", 0x0002}, {"passiveAckErr", 0x0004}, {"activeAckErr", 0x0008}, {"ackDelErr", 0x0010},
    {"formErr", 0x0020}, {"stuffErr", 0x0040}, {"crcDelErr", 0x0080}, {"eofErr", 0x0100}, {"bitErr", 0x0200},
    {"r0", 0x0400}, {"srrDom", 0x0800}, {"brs", 0x1000}, {"esi", 0x2000}};

inline DescT<lib::CanPayloadBase::Header> descCanHeader()
{
    using Obj = lib::CanPayloadBase::Header;
    DescT<Obj> d;
    d.name = "CanPayloadBase::Header";
    d.headerSize = 16;
    d.actualHeaderSize = [] { return sizeof(Obj); };
    d.cells = {{0, 2}, {4, 4}, {8, 4}, {12, 2}, {14, 1}, {15, 1}};
    VF_FIELD("flags", 0, 0, 16, o.setFlags(static_cast<uint16_t>(v)), o.getFlags());
    for (const auto& fb : kCanFlagBits)
    {
        uint16_t m = fb.second;
        d.fields.push_back({std::string("flag.") + fb.first, 0, bitIndex(m), 1,
                            [m](Obj& o, uint64_t v) { o.setFlag(static_cast<lib::CanPayloadBase::Flags>(m), v != 0); },
                            [m](const Obj& o) -> uint64_t { return o.getFlag(static_cast<lib::CanPayloadBase::Flags>(m)); }, {}});
    }
    VF_FIELD("id", 1, 0, 29, o.setId(static_cast<uint32_t>(v)), o.getId());
    VF_FIELD("rsvd", 1, 29, 1, o.setRsvd(v != 0), o.getRsvd());
    VF_FIELD("rtrRrs", 1, 30, 1, o.setRtrRrs(v != 0), o.getRtrRrs());
    VF_FIELD("ide", 1, 31, 1, o.setIde(v != 0), o.getIde());
    VF_FIELD("crc", 2, 0, 15, o.setCrc(static_cast<uint16_t>(v)), o.getCrc());
    VF_FIELD("crcSbc", 2, 0, 21, o.setCrcSbc(static_cast<uint32_t>(v)), o.getCrcSbc());
    VF_FIELD("sbc", 2, 21, 3, o.setSbc(static_cast<uint8_t>(v)), o.getSbc());
    VF_FIELD("sbcParity", 2, 24, 1, o.setSbcParity(v != 0), o.getSbcParity());
    VF_FIELD("sbcSupport", 2, 30, 1, o.setSbcSupport(v != 0), o.getSbcSupport());
    VF_FIELD("crcSupport", 2, 31, 1, o.setCrcSupport(v != 0), o.getCrcSupport());
    VF_FIELD("errorPosition", 3, 0, 16, o.setErrorPosition(static_cast<uint16_t>(v)), o.getErrorPosition());
    VF_FIELD("dlc", 4, 0, 8, o.setDlc(static_cast<uint8_t>(v)), o.getDlc());
    VF_FIELD("dataLength", 5, 0, 8, o.setDataLength(static_cast<uint8_t>(v)), o.getDataLength());
    d.fromImage = headerFromImage<Obj>;
    d.image = headerImage<Obj>;
    d.data = [](const Obj&) { return Bytes{}; };
    d.makeDefault = [] { return Obj{}; };
    return d;
}

inline DescT<lib::CanPayload> descCanPayload()
{
    using Obj = lib::CanPayload;
    DescT<Obj> d;
    d.name = "CanPayload";
    d.headerSize = 16;
    d.actualHeaderSize = [] { return Obj().getLength(); };
    d.cells = {{0, 2}, {4, 4}, {8, 4}, {12, 2}, {14, 1}, {15, 1}};
    VF_FIELD("flags", 0, 0, 16, o.setFlags(static_cast<uint16_t>(v)), o.getFlags());
    for (const auto& fb : kCanFlagBits)
    {
        uint16_t m = fb.second;
        d.fields.push_back({std::string("flag.") + fb.first, 0, bitIndex(m), 1,
                            [m](Obj& o, uint64_t v) { o.setFlag(static_cast<lib::CanPayloadBase::Flags>(m), v != 0); },
                            [m](const Obj& o) -> uint64_t { return o.getFlag(static_cast<lib::CanPayloadBase::Flags>(m)); }, {}});
    }
    VF_FIELD("id", 1, 0, 29, o.setId(static_cast<uint32_t>(v)), o.getId());
    VF_FIELD("rsvd", 1, 29, 1, o.setRsvd(v != 0), o.getRsvd());
    VF_FIELD("rtr", 1, 30, 1, o.setRtr(v != 0), o.getRtr());
    VF_FIELD("ide", 1, 31, 1, o.setIde(v != 0), o.getIde());
    VF_FIELD("crc", 2, 0, 15, o.setCrc(static_cast<uint16_t>(v)), o.getCrc());
    VF_FIELD("crcSupport", 2, 31, 1, o.setCrcSupport(v != 0), o.getCrcSupport());
    VF_FIELD("errorPosition", 3, 0, 16, o.setErrorPosition(static_cast<uint16_t>(v)), o.getErrorPosition());
    d.fields.push_back({"dlc(read-only)", 4, 0, 8, nullptr, [](const Obj& o) -> uint64_t { return o.getDlc(); }, {}});
    d.fields.push_back({"dataLength(read-only)", 5, 0, 8, nullptr, [](const Obj& o) -> uint64_t { return o.getDataLength(); }, {}});
    d.dataSetter = [](Obj& o, const Bytes& b) {
        static const uint8_t dummy = 0;
        o.setData(b.empty() ? &dummy : b.data(), static_cast<uint8_t>(b.size()));
    };
    d.maxData = 64;
    d.lengthCell = 5;
    d.dataEffects.push_back({4, [](size_t n, uint64_t& v) {
                                 bool defined = false;
                                 v = wire::canDlcFor(static_cast<uint8_t>(n), defined);
                                 return defined;
                             }});
    d.dataEffects.push_back({5, [](size_t n, uint64_t& v) {
                                 v = n;
                                 return true;
                             }});
    d.fromImage = [](const Bytes& image) { return Obj(image.data(), image.size()); };
    d.image = [](const Obj& o) { return payloadImage(o, 16); };
    d.data = [](const Obj& o) { return payloadData(o, 16); };
    d.makeDefault = [] { return Obj{}; };
    return d;
}

inline DescT<lib::CanFdPayload> descCanFdPayload()
{
    using Obj = lib::CanFdPayload;
    DescT<Obj> d;
    d.name = "CanFdPayload";
    d.headerSize = 16;
    d.actualHeaderSize = [] { return Obj().getLength(); };
    d.cells = {{0, 2}, {4, 4}, {8, 4}, {12, 2}, {14, 1}, {15, 1}};
    VF_FIELD("flags", 0, 0, 16, o.setFlags(static_cast<uint16_t>(v)), o.getFlags());
    for (const auto& fb : kCanFlagBits)
    {
        uint16_t m = fb.second;
        d.fields.push_back({std::string("flag.") + fb.first, 0, bitIndex(m), 1,
                            [m](Obj& o, uint64_t v) { o.setFlag(static_cast<lib::CanPayloadBase::Flags>(m), v != 0); },
                            [m](const Obj& o) -> uint64_t { return o.getFlag(static_cast<lib::CanPayloadBase::Flags>(m)); }, {}});
    }
    VF_FIELD("id", 1, 0, 29, o.setId(static_cast<uint32_t>(v)), o.getId());
    VF_FIELD("rsvd", 1, 29, 1, o.setRsvd(v != 0), o.getRsvd());
    VF_FIELD("rrs", 1, 30, 1, o.setRrs(v != 0), o.getRrs());
    VF_FIELD("ide", 1, 31, 1, o.setIde(v != 0), o.getIde());
    VF_FIELD("crc", 2, 0, 21, o.setCrc(static_cast<uint32_t>(v)), o.getCrc());
    VF_FIELD("sbc", 2, 21, 3, o.setSbc(static_cast<uint8_t>(v)), o.getSbc());
    VF_FIELD("sbcParity", 2, 24, 1, o.setSbcParity(v != 0), o.getSbcParity());
    VF_FIELD("sbcSupport", 2, 30, 1, o.setSbcSupport(v != 0), o.getSbcSupport());
    VF_FIELD("crcSupport", 2, 31, 1, o.setCrcSupport(v != 0), o.getCrcSupport());
    VF_FIELD("errorPosition", 3, 0, 16, o.setErrorPosition(static_cast<uint16_t>(v)), o.getErrorPosition());
    d.fields.push_back({"dlc(read-only)", 4, 0, 8, nullptr, [](const Obj& o) -> uint64_t { return o.getDlc(); }, {}});
    d.fields.push_back({"dataLength(read-only)", 5, 0, 8, nullptr, [](const Obj& o) -> uint64_t { return o.getDataLength(); }, {}});
    d.dataSetter = [](Obj& o, const Bytes& b) {
        static const uint8_t dummy = 0;
        o.setData(b.empty() ? &dummy : b.data(), static_cast<uint8_t>(b.size()));
    };
    d.maxData = 64;
    d.lengthCell = 5;
    d.dataEffects.push_back({4, [](size_t n, uint64_t& v) {
                                 bool defined = false;
                                 v = wire::canDlcFor(static_cast<uint8_t>(n), defined);
                                 return defined;
                             }});
    d.dataEffects.push_back({5, [](size_t n, uint64_t& v) {
                                 v = n;
                                 return true;
                             }});
    d.fromImage = [](const Bytes& image) { return Obj(image.data(), image.size()); };
    d.image = [](const Obj& o) { return payloadImage(o, 16); };
    d.data = [](const Obj& o) { return payloadData(o, 16); };
    d.makeDefault = [] { return Obj{}; };
    return d;
}

// LIN: flags(2) reserved(2) pid(1) reserved(1) checksum(1) dataLength(1)
static const std::pair<const char*, uint16_t> kLinFlagBits[] = {
    {"checksumErr", 0x0001}, {"collisionErr", 0x0002}, {"parityErr", 0x0004}, {"noSlaveRespErr", 0x0008}, {"syncErr", 0x0010},
    {"framingErr", 0x0020}, {"shortDomErr", 0x0040}, {"longDomErr", 0x0080}, {"wup", 0x0100}};

inline DescT<lib::LinPayload> descLinPayload()
{
    using Obj = lib::LinPayload;
    DescT<Obj> d;
    d.name = "LinPayload";
    d.headerSize = 8;
    d.actualHeaderSize = [] { return Obj().getLength(); };
    d.cells = {{0, 2}, {4, 1}, {6, 1}, {7, 1}};
    VF_FIELD("flags", 0, 0, 16, o.setFlags(static_cast<uint16_t>(v)), o.getFlags());
    for (const auto& fb : kLinFlagBits)
    {
        uint16_t m = fb.second;
        d.fields.push_back({std::string("flag.") + fb.first, 0, bitIndex(m), 1,
                            [m](Obj& o, uint64_t v) { o.setFlag(static_cast<lib::LinPayload::Flags>(m), v != 0); },
                            [m](const Obj& o) -> uint64_t { return o.getFlag(static_cast<lib::LinPayload::Flags>(m)); }, {}});
    }
    VF_FIELD("linId", 1, 0, 6, o.setLinId(static_cast<uint8_t>(v)), o.getLinId());
    VF_FIELD("parityBits", 1, 6, 2, o.setParityBits(static_cast<uint8_t>(v)), o.getParityBits());
    VF_FIELD("checksum", 2, 0, 8, o.setChecksum(static_cast<uint8_t>(v)), o.getChecksum());
    d.fields.push_back({"dataLength(read-only)", 3, 0, 8, nullptr, [](const Obj& o) -> uint64_t { return o.getDataLength(); }, {}});
    d.dataSetter = [](Obj& o, const Bytes& b) {
        static const uint8_t dummy = 0;
        o.setData(b.empty() ? &dummy : b.data(), static_cast<uint8_t>(b.size()));
    };
    d.maxData = 40;
    d.lengthCell = 3;
    d.dataEffects.push_back({3, [](size_t n, uint64_t& v) {
                                 v = n;
                                 return true;
                             }});
    d.fromImage = [](const Bytes& image) { return Obj(image.data(), image.size()); };
    d.image = [](const Obj& o) { return payloadImage(o, 8); };
    d.data = [](const Obj& o) { return payloadData(o, 8); };
    d.makeDefault = [] { return Obj{}; };
    return d;
}

// Ethernet: flags(2) reserved(2) dataLength(2)
static const std::pair<const char*, uint16_t> kEthFlagBits[] = {
    {"fcsErr", 0x0001}, {"frameShorterThan64b", 0x0002}, {"txPortDown", 0x0004}, {"collision", 0x0008},
    {"frameTooLongErr", 0x0010}, {"phyErr", 0x0020}, {"frameTruncated", 0x0040}, {"fcsSupport", 0x0080}};

inline DescT<lib::EthernetPayload> descEthernetPayload()
{
    using Obj = lib::EthernetPayload;
    DescT<Obj> d;
    d.name = "EthernetPayload";
    d.headerSize = 6;
    d.actualHeaderSize = [] { return Obj().getLength(); };
    d.cells = {{0, 2}, {4, 2}};
    VF_FIELD("flags", 0, 0, 16, o.setFlags(static_cast<uint16_t>(v)), o.getFlags());
    for (const auto& fb : kEthFlagBits)
    {
        uint16_t m = fb.second;
        d.fields.push_back({std::string("flag.") + fb.first, 0, bitIndex(m), 1,
                            [m](Obj& o, uint64_t v) { o.setFlag(static_cast<lib::EthernetPayload::Flags>(m), v != 0); },
                            [m](const Obj& o) -> uint64_t { return o.getFlag(static_cast<lib::EthernetPayload::Flags>(m)); }, {}});
    }
    d.fields.push_back({"dataLength(read-only)", 1, 0, 16, nullptr, [](const Obj& o) -> uint64_t { return o.getDataLength(); }, {}});
    d.dataSetter = [](Obj& o, const Bytes& b) {
        static const uint8_t dummy = 0;
        o.setData(b.empty() ? &dummy : b.data(), static_cast<uint16_t>(b.size()));
    };
    d.maxData = 80;
    d.lengthCell = 1;
    d.dataEffects.push_back({1, [](size_t n, uint64_t& v) {
                                 v = n;
                                 return true;
                             }});
    d.fromImage = [](const Bytes& image) { return Obj(image.data(), image.size()); };
    d.image = [](const Obj& o) { return payloadImage(o, 6); };
    d.data = [](const Obj& o) { return payloadData(o, 6); };
    d.makeDefault = [] { return Obj{}; };
    return d;
}

// Analog: flags(2; b1..0 sample_dt) reserved(1) unit(1) sampleInterval(4) sampleOffset(4) sampleScalar(4)
inline uint64_t fbits(float f)
{
    return wire::floatBits(f);
}
inline DescT<lib::AnalogPayload> descAnalogPayload()
{
    using Obj = lib::AnalogPayload;
    DescT<Obj> d;
    d.name = "AnalogPayload";
    d.headerSize = 16;
    d.actualHeaderSize = [] { return Obj().getLength(); };
    d.cells = {{0, 2}, {3, 1}, {4, 4}, {8, 4}, {12, 4}};
    VF_FIELD("flags", 0, 0, 16, o.setFlags(static_cast<uint16_t>(v)), o.getFlags());
    // the enumerators are byte-swapped constants (aInt32 = 0x0100): the view is bits 1..0 of the big-endian flag word
    d.fields.push_back({"sampleDt", 0, 0, 2,
                        [](Obj& o, uint64_t v) { o.setSampleDt(static_cast<lib::AnalogPayload::SampleDt>(static_cast<uint16_t>(v << 8))); },
                        [](const Obj& o) -> uint64_t { return static_cast<uint16_t>(o.getSampleDt()) >> 8; },
                        {0, 1}});
    VF_FIELD("unit", 1, 0, 8, o.setUnit(static_cast<lib::AnalogPayload::Unit>(v)), o.getUnit());
    VF_FIELD("sampleInterval", 2, 0, 32, o.setSampleInterval(wire::bitsFloat(static_cast<uint32_t>(v))), fbits(o.getSampleInterval()));
    VF_FIELD("sampleOffset", 3, 0, 32, o.setSampleOffset(wire::bitsFloat(static_cast<uint32_t>(v))), fbits(o.getSampleOffset()));
    VF_FIELD("sampleScalar", 4, 0, 32, o.setSampleScalar(wire::bitsFloat(static_cast<uint32_t>(v))), fbits(o.getSampleScalar()));
    d.fromImage = [](const Bytes& image) { return Obj(image.data(), image.size()); };
    d.image = [](const Obj& o) { return payloadImage(o, 16); };
    d.data = [](const Obj& o) { return payloadData(o, 16); };
    d.makeDefault = [] { return Obj{}; };
    return d;
}

// Capture-module status: uptime(8) gmIdentity(8) gmClockQuality(4) currentUtcOffset(2) timeSource(1) domainNumber(1)
//                        reserved(1) gptpFlags(1)
inline DescT<lib::CaptureModulePayload> descCmPayload()
{
    using Obj = lib::CaptureModulePayload;
    DescT<Obj> d;
    d.name = "CaptureModulePayload";
    d.headerSize = 26;
    d.actualHeaderSize = [] { return Obj().getLength() - 10; };  // default object = header + five empty length prefixes
    d.cells = {{0, 8}, {8, 8}, {16, 4}, {20, 2}, {22, 1}, {23, 1}, {25, 1}};
    VF_FIELD("uptime", 0, 0, 64, o.setUptime(v), o.getUptime());
    VF_FIELD("gmIdentity", 1, 0, 64, o.setGmIdentity(v), o.getGmIdentity());
    VF_FIELD("gmClockQuality", 2, 0, 32, o.setGmClockQuality(static_cast<uint32_t>(v)), o.getGmClockQuality());
    VF_FIELD("currentUtcOffset", 3, 0, 16, o.setCurrentUtcOffset(static_cast<uint16_t>(v)), o.getCurrentUtcOffset());
    VF_FIELD("timeSource", 4, 0, 8, o.setTimeSource(static_cast<uint8_t>(v)), o.getTimeSource());
    VF_FIELD("domainNumber", 5, 0, 8, o.setDomainNumber(static_cast<uint8_t>(v)), o.getDomainNumber());
    VF_FIELD("gptpFlags", 6, 0, 8, o.setGptpFlags(static_cast<uint8_t>(v)), o.getGptpFlags());
    d.fromImage = [](const Bytes& image) {
        // header bytes from the image, followed by a well-formed variable part (so that the string getters stay usable)
        Bytes b(image.begin(), image.begin() + static_cast<long>(std::min<size_t>(26, image.size())));
        b.resize(26, 0);
        wire::putCmString(b, "dev");
        wire::putCmString(b, "sn12");
        wire::putCmString(b, "");
        wire::putCmString(b, "v1.2.3");
        wire::put16(b, 3);
        b.insert(b.end(), {9, 8, 7});
        return Obj(b.data(), b.size());
    };
    d.varSetter = [](Obj& o, uint64_t v) -> Verdict {
        // bits 0..19: four string lengths 0..31, bits 20..27 vendor length 0..255 (a third of them empty), rest: content
        std::string str[4];
        for (int i = 0; i < 4; ++i)
            str[i] = fillString(static_cast<uint32_t>(v >> 32) + static_cast<uint32_t>(i), ((v >> (5 * i)) & 31) * (((v >> (40 + i)) & 7) == 0 ? 9 : 1));  // up to 279 now and then
        size_t vn = ((v >> 28) % 3 == 0) ? 0 : ((v >> 30) % 4 == 0) ? ((v >> 20) & 0xFF) * 4 : ((v >> 20) & 0xFF);
        Bytes vendor = fillBytes(static_cast<uint32_t>(v >> 36), vn);
        o.setData(str[0], str[1], str[2], str[3], vendor);
        VF_CHECK(std::string(o.getDeviceDescription()) == str[0] && std::string(o.getSerialNumber()) == str[1] && std::string(o.getHardwareVersion()) == str[2] &&
                     std::string(o.getSoftwareVersion()) == str[3],
                 "CaptureModulePayload: the strings read back after setData differ from the ones written (lengths " << str[0].size() << "," << str[1].size() << ","
                                                                                                                 << str[2].size() << "," << str[3].size() << ")");
        VF_CHECK(o.getVendorDataLength() == vendor.size(), "CaptureModulePayload: vendor data length reads back as " << o.getVendorDataLength() << ", " << vendor.size() << " was written");
        VF_CHECK(vendor.empty() || (o.getVendorData() && memcmp(o.getVendorData(), vendor.data(), vendor.size()) == 0), "CaptureModulePayload: vendor data read back differs");
        return Verdict::pass();
    };
    d.image = [](const Obj& o) { return payloadImage(o, 26); };
    d.data = [](const Obj& o) { return payloadData(o, 26); };
    d.makeDefault = [] { return Obj{}; };
    return d;
}

// Interface status: interfaceId(4) msgTotalRx(4) msgTotalTx(4) msgDroppedRx(4) msgDroppedTx(4) errorsTotalRx(4)
//                   errorsTotalTx(4) interfaceType(1) interfaceStatus(1) reserved(2) featureSupportBitmask(4)
inline DescT<lib::InterfacePayload> descIfPayload()
{
    using Obj = lib::InterfacePayload;
    DescT<Obj> d;
    d.name = "InterfacePayload";
    d.headerSize = 36;
    d.actualHeaderSize = [] { return Obj().getLength() - 4; };
    d.cells = {{0, 4}, {4, 4}, {8, 4}, {12, 4}, {16, 4}, {20, 4}, {24, 4}, {28, 1}, {29, 1}, {32, 4}};
    VF_FIELD("interfaceId", 0, 0, 32, o.setInterfaceId(static_cast<uint32_t>(v)), o.getInterfaceId());
    VF_FIELD("msgTotalRx", 1, 0, 32, o.setMsgTotalRx(static_cast<uint32_t>(v)), o.getMsgTotalRx());
    VF_FIELD("msgTotalTx", 2, 0, 32, o.setMsgTotalTx(static_cast<uint32_t>(v)), o.getMsgTotalTx());
    VF_FIELD("msgDroppedRx", 3, 0, 32, o.setMsgDroppedRx(static_cast<uint32_t>(v)), o.getMsgDroppedRx());
    VF_FIELD("msgDroppedTx", 4, 0, 32, o.setMsgDroppedTx(static_cast<uint32_t>(v)), o.getMsgDroppedTx());
    VF_FIELD("errorsTotalRx", 5, 0, 32, o.setErrorsTotalRx(static_cast<uint32_t>(v)), o.getErrorsTotalRx());
    VF_FIELD("errorsTotalTx", 6, 0, 32, o.setErrorsTotalTx(static_cast<uint32_t>(v)), o.getErrorsTotalTx());
    VF_FIELD("interfaceType", 7, 0, 8, o.setInterfaceType(static_cast<uint8_t>(v)), o.getInterfaceType());
    d.fields.push_back({"interfaceStatus", 8, 0, 8,
                        [](Obj& o, uint64_t v) { o.setInterfaceStatus(static_cast<lib::InterfacePayload::InterfaceStatus>(v)); },
                        [](const Obj& o) -> uint64_t { return static_cast<uint64_t>(o.getInterfaceStatus()); },
                        {0, 1, 2}});
    VF_FIELD("featureSupportBitmask", 9, 0, 32, o.setFeatureSupportBitmask(static_cast<uint32_t>(v)), o.getFeatureSupportBitmask());
    d.fromImage = [](const Bytes& image) {
        Bytes b(image.begin(), image.begin() + static_cast<long>(std::min<size_t>(36, image.size())));
        b.resize(36, 0);
        wire::put16(b, 3);
        b.insert(b.end(), {1, 2, 3, 0});
        wire::put16(b, 2);
        b.insert(b.end(), {0xAA, 0xBB});
        return Obj(b.data(), b.size());
    };
    d.varSetter = [](Obj& o, uint64_t v) -> Verdict {
        // mostly short lists; one in eight goes up to 511 ids / 1023 vendor bytes (both bytes of the 16-bit lengths matter)
        size_t in = ((v >> 16) % 4 == 0) ? 0 : ((v >> 20) % 8 == 0) ? (v & 0x1FF) : (v & 0x3F);
        size_t vn = ((v >> 18) % 3 == 0) ? 0 : ((v >> 23) % 8 == 0) ? ((v >> 8) & 0x3FF) : ((v >> 8) & 0xFF);
        Bytes ids = fillBytes(static_cast<uint32_t>(v >> 32), in);
        Bytes vendor = fillBytes(static_cast<uint32_t>(v >> 36), vn);
        static const uint8_t dummy = 0;
        o.setData(ids.empty() ? &dummy : ids.data(), static_cast<uint16_t>(ids.size()), vendor.empty() ? &dummy : vendor.data(), static_cast<uint16_t>(vendor.size()));
        VF_CHECK(o.getStreamIdsCount() == ids.size(), "InterfacePayload: stream id count reads back as " << o.getStreamIdsCount() << ", " << ids.size() << " was written");
        VF_CHECK(o.getVendorDataLength() == vendor.size(), "InterfacePayload: vendor data length reads back as " << o.getVendorDataLength() << ", " << vendor.size() << " was written");
        VF_CHECK(ids.empty() || (o.getStreamIds() && memcmp(o.getStreamIds(), ids.data(), ids.size()) == 0), "InterfacePayload: stream ids read back differ");
        VF_CHECK(vendor.empty() || (o.getVendorData() && memcmp(o.getVendorData(), vendor.data(), vendor.size()) == 0), "InterfacePayload: vendor data read back differs");
        return Verdict::pass();
    };
    d.image = [](const Obj& o) { return payloadImage(o, 36); };
    d.data = [](const Obj& o) { return payloadData(o, 36); };
    d.makeDefault = [] { return Obj{}; };
    return d;
}

// ---------------------------------------------------------------------------------------------------
// TECMP
// ---------------------------------------------------------------------------------------------------
// header(28): byte0(1) deviceId(1) counter(2) version(1) messageType(1) dataType(2) reserved(2) deviceFlags(2)
//             interfaceId(4) timestamp(8) payloadLength(2) dataFlags(2)
inline DescT<TECMP::CmpHeader> descTecmpHeader()
{
    using Obj = TECMP::CmpHeader;
    DescT<Obj> d;
    d.name = "TECMP::CmpHeader";
    d.headerSize = 28;
    d.actualHeaderSize = [] { return sizeof(Obj); };
    d.cells = {{1, 1}, {2, 2}, {4, 1}, {5, 1}, {6, 2}, {10, 2}, {12, 4}, {16, 8}, {24, 2}};
    VF_FIELD("deviceId", 0, 0, 8, o.setDeviceId(static_cast<uint8_t>(v)), o.getDeviceId());
    VF_FIELD("sequenceCounter", 1, 0, 16, o.setSequenceCounter(static_cast<uint16_t>(v)), o.getSequenceCounter());
    VF_FIELD("version", 2, 0, 8, o.setVersion(static_cast<uint8_t>(v)), o.getVersion());
    d.fields.push_back({"messageType", 3, 0, 8, [](Obj& o, uint64_t v) { o.setMessageType(static_cast<Obj::MessageType>(v)); },
                        [](const Obj& o) -> uint64_t { return static_cast<uint64_t>(o.getMessageType()); },
                        {0x00, 0x01, 0x02, 0x03, 0x04, 0x0A, 0xFF}});
    d.fields.push_back({"dataType", 4, 0, 16, [](Obj& o, uint64_t v) { o.setDataType(static_cast<Obj::DataType>(v)); },
                        [](const Obj& o) -> uint64_t { return static_cast<uint64_t>(o.getDataType()); },
                        {0x02, 0x03, 0x04, 0x08, 0x10, 0x20, 0x80, 0xFF}});
    VF_FIELD("deviceFlags", 5, 0, 16, o.setDeviceFlags(static_cast<uint16_t>(v)), o.getDeviceFlags());
    VF_FIELD("interfaceId", 6, 0, 32, o.setInterfaceId(static_cast<uint32_t>(v)), o.getInterfaceId());
    VF_FIELD("timestamp", 7, 0, 64, o.setTimestamp(v), o.getTimestamp());
    VF_FIELD("payloadLength", 8, 0, 16, o.setPayloadLength(static_cast<uint16_t>(v)), o.getPayloadLength());
    d.fromImage = headerFromImage<Obj>;
    d.image = headerImage<Obj>;
    d.data = [](const Obj&) { return Bytes{}; };
    d.makeDefault = [] { return Obj{}; };
    return d;
}

// TECMP CAN payload: arbId(4) length(1)
inline DescT<TECMP::CanPayload> descTecmpCan()
{
    using Obj = TECMP::CanPayload;
    DescT<Obj> d;
    d.name = "TECMP::CanPayload";
    d.headerSize = 5;
    d.actualHeaderSize = [] { return Obj().getLength(); };
    d.cells = {{0, 4}, {4, 1}};
    VF_FIELD("arbId", 0, 0, 32, o.setArbId(static_cast<uint32_t>(v)), o.getArbId());
    VF_FIELD("dlc", 1, 0, 8, o.setDlc(static_cast<uint8_t>(v)), o.getDlc());
    d.fromImage = [](const Bytes& image) { return Obj(image.data(), image.size()); };
    d.image = [](const Obj& o) { return payloadImage(o, 5); };
    d.data = [](const Obj& o) { return payloadData(o, 5); };
    d.makeDefault = [] { return Obj{}; };
    return d;
}

// TECMP LIN payload: pid(1) length(1)
inline DescT<TECMP::LinPayload> descTecmpLin()
{
    using Obj = TECMP::LinPayload;
    DescT<Obj> d;
    d.name = "TECMP::LinPayload";
    d.headerSize = 2;
    d.actualHeaderSize = [] { return Obj().getLength(); };
    d.cells = {{0, 1}, {1, 1}};
    VF_FIELD("pid", 0, 0, 8, o.setPid(static_cast<uint8_t>(v)), o.getPid());
    VF_FIELD("dataLength", 1, 0, 8, o.setDataLength(static_cast<uint8_t>(v)), o.getDataLength());
    d.fromImage = [](const Bytes& image) { return Obj(image.data(), image.size()); };
    d.image = [](const Obj& o) { return payloadImage(o, 2); };
    d.data = [](const Obj& o) { return payloadData(o, 2); };
    d.makeDefault = [] { return Obj{}; };
    return d;
}

// TECMP bus status (library view): generic(12) = vendorId(1) cmVersion(1) cmType(1) reserved(1) vendorDataLength(2)
//   deviceId(2) serialNumber(4); bus data(12) = interfaceId(4) messagesTotal(4) errorsTotal(4); vendor data(4) =
//   linkStatus(1) linkQuality(1) linkupTime(2)
inline DescT<TECMP::InterfacePayload> descTecmpIf()
{
    using Obj = TECMP::InterfacePayload;
    DescT<Obj> d;
    d.name = "TECMP::InterfacePayload";
    d.headerSize = 28;
    d.actualHeaderSize = [] { return Obj().getLength(); };
    d.cells = {{0, 1}, {1, 1}, {2, 1}, {4, 2}, {6, 2}, {8, 4}, {12, 4}, {16, 4}, {20, 4}, {24, 1}, {25, 1}, {26, 2}};
    VF_FIELD("vendorId", 0, 0, 8, o.setVendorId(static_cast<uint8_t>(v)), o.getVendorId());
    VF_FIELD("cmVersion", 1, 0, 8, o.setCmVersion(static_cast<uint8_t>(v)), o.getCmVersion());
    VF_FIELD("cmType", 2, 0, 8, o.setCmType(static_cast<uint8_t>(v)), o.getCmType());
    VF_FIELD("vendorDataLength", 3, 0, 16, o.setVendorDataLength(static_cast<uint16_t>(v)), o.getVendorDataLength());
    VF_FIELD("deviceId", 4, 0, 16, o.setDeviceId(static_cast<uint16_t>(v)), o.getDeviceId());
    VF_FIELD("serialNumber", 5, 0, 32, o.setSerialNumber(static_cast<uint32_t>(v)), o.getSerialNumber());
    VF_FIELD("interfaceId", 6, 0, 32, o.setInterfaceId(static_cast<uint32_t>(v)), o.getInterfaceId());
    VF_FIELD("messagesTotal", 7, 0, 32, o.setMessagesTotal(static_cast<uint32_t>(v)), o.getMessagesTotal());
    VF_FIELD("errorsTotal", 8, 0, 32, o.setErrorsTotal(static_cast<uint32_t>(v)), o.getErrorsTotal());
    VF_FIELD("linkStatus", 9, 0, 8, o.setVendorDataLinkStatus(static_cast<uint8_t>(v)), o.getVendorDataLinkStatus());
    VF_FIELD("linkQuality", 10, 0, 8, o.setVendorDataLinkQuality(static_cast<uint8_t>(v)), o.getVendorDataLinkQuality());
    VF_FIELD("linkupTime", 11, 0, 16, o.setVendorDataLinkupTime(static_cast<uint16_t>(v)), o.getVendorDataLinkupTime());
    d.groups.push_back({"setGenericData", 0, 12, false, [](Obj& o, const uint8_t* p, uint8_t) { o.setGenericData(p); }});
    d.groups.push_back({"setBusData", 12, 12, true, [](Obj& o, const uint8_t* p, uint8_t n) { o.setBusData(p, n); }});
    d.fromImage = [](const Bytes& image) {
        Bytes b = image;
        b.resize(std::max<size_t>(b.size(), 28), 0);
        return Obj(b.data(), b.size());
    };
    d.image = [](const Obj& o) { return payloadImage(o, 28); };
    d.data = [](const Obj& o) { return payloadData(o, 28); };
    d.makeDefault = [] { return Obj{}; };
    return d;
}

// TECMP capture-module status: generic(12) + vendor data(24): reserved(1) swMajor swMinor swPatch hwMajor hwMinor
//   bufferFill(1) isBufferOverflow(1) bufferSize(4) lifecycle(8) voltageWhole(1) voltageFraction(1) chassisTemp(1) siliconTemp(1)
inline DescT<TECMP::CaptureModulePayload> descTecmpCm()
{
    using Obj = TECMP::CaptureModulePayload;
    DescT<Obj> d;
    d.name = "TECMP::CaptureModulePayload";
    d.headerSize = 36;
    d.actualHeaderSize = [] { return Obj().getLength(); };
    d.cells = {{0, 1}, {1, 1}, {2, 1}, {4, 2}, {6, 2}, {8, 4}, {13, 1}, {14, 1}, {15, 1}, {16, 1}, {17, 1}, {18, 1}, {19, 1},
               {20, 4}, {24, 8}, {32, 1}, {33, 1}, {34, 1}, {35, 1}};
    VF_FIELD("vendorId", 0, 0, 8, o.setVendorId(static_cast<uint8_t>(v)), o.getVendorId());
    VF_FIELD("deviceVersion", 1, 0, 8, o.setDeviceVersion(static_cast<uint8_t>(v)), o.getDeviceVersion());
    VF_FIELD("deviceType", 2, 0, 8, o.setDeviceType(static_cast<uint8_t>(v)), o.getDeviceType());
    VF_FIELD("vendorDataLength", 3, 0, 16, o.setVendorDataLength(static_cast<uint16_t>(v)), o.getVendorDataLength());
    VF_FIELD("deviceId", 4, 0, 16, o.setDeviceId(static_cast<uint16_t>(v)), o.getDeviceId());
    VF_FIELD("serialNumber", 5, 0, 32, o.setSerialNumber(static_cast<uint32_t>(v)), o.getSerialNumber());
    VF_FIELD("swVersionMajor", 6, 0, 8, o.setSwVersionMajor(static_cast<uint8_t>(v)), o.getSwVersionMajor());
    VF_FIELD("swVersionMinor", 7, 0, 8, o.setSwVersionMinor(static_cast<uint8_t>(v)), o.getSwVersionMinor());
    VF_FIELD("swVersionPatch", 8, 0, 8, o.setSwVersionPatch(static_cast<uint8_t>(v)), o.getSwVersionPatch());
    VF_FIELD("hwVersionMajor", 9, 0, 8, o.setHwVersionMajor(static_cast<uint8_t>(v)), o.getHwVersionMajor());
    VF_FIELD("hwVersionMinor", 10, 0, 8, o.setHwVersionMinor(static_cast<uint8_t>(v)), o.getHwVersionMinor());
    VF_FIELD("bufferFill", 11, 0, 8, o.setBufferFill(static_cast<uint8_t>(v)), o.getBufferFill());
    VF_FIELD("isBufferOverflow", 12, 0, 8, o.setIsBufferOverflow(static_cast<uint8_t>(v)), o.getIsBufferOverflow());
    VF_FIELD("bufferSize", 13, 0, 32, o.setBufferSize(static_cast<uint32_t>(v)), o.getBufferSize());
    VF_FIELD("lifecycle", 14, 0, 64, o.setLifecycle(v), o.getLifecycle());
    VF_FIELD("voltageWhole", 15, 0, 8, o.setVoltageWhole(static_cast<uint8_t>(v)), o.getVoltageWhole());
    VF_FIELD("voltageFraction", 16, 0, 8, o.setVoltageFraction(static_cast<uint8_t>(v)), o.getVoltageFraction());
    VF_FIELD("chassisTemp", 17, 0, 8, o.setChassisTemp(static_cast<uint8_t>(v)), o.getChassisTemp());
    VF_FIELD("silliconTemp", 18, 0, 8, o.setSilliconTemp(static_cast<uint8_t>(v)), o.getSilliconTemp());
    d.fromImage = [](const Bytes& image) {
        Bytes b = image;
        b.resize(std::max<size_t>(b.size(), 36), 0);
        return Obj(b.data(), b.size());
    };
    d.image = [](const Obj& o) { return payloadImage(o, 36); };
    d.data = [](const Obj& o) { return payloadData(o, 36); };
    d.makeDefault = [] { return Obj{}; };
    return d;
}

// number of classes and dispatch by index
constexpr int kFieldClassCount = 18;

template <class F>
auto withClass(int cls, F&& f)
{
    switch (cls)
    {
        case 0:
            return f(descCmpHeader());
        case 1:
            return f(descMessageHeader());
        case 2:
            return f(descPacket());
        case 3:
            return f(descPayloadType());
        case 4:
            return f(descPayload());
        case 5:
            return f(descCanHeader());
        case 6:
            return f(descCanPayload());
        case 7:
            return f(descCanFdPayload());
        case 8:
            return f(descLinPayload());
        case 9:
            return f(descEthernetPayload());
        case 10:
            return f(descAnalogPayload());
        case 11:
            return f(descCmPayload());
        case 12:
            return f(descIfPayload());
        case 13:
            return f(descTecmpHeader());
        case 14:
            return f(descTecmpCan());
        case 15:
            return f(descTecmpLin());
        case 16:
            return f(descTecmpIf());
        default:
            return f(descTecmpCm());
    }
}

}  // namespace vf
