// Frame recipes: plain-data descriptions of CMP / raw buffers, turned into bytes by the independent builders.
#pragma once

#include "lib.h"

namespace vf
{

struct MsgRecipe
{
    uint8_t seg{0};        // 0 unsegmented, 1 first, 2 intermediary, 3 last
    uint8_t ptype{0x20};   // payload type byte (0 makes the message invalid)
    uint8_t flags{0};      // flag byte without segment bits; 0x40 = error in payload
    uint64_t ts{0};
    uint32_t idWord{0};
    uint32_t seed{0};      // payload content (ignored when `bytes` is used)
    uint32_t len{0};       // number of payload bytes present
    int32_t declared{-1};  // declared payload length; -1 = len
    uint8_t useBytes{0};   // 1: payload is given explicitly in `bytes`
    Bytes bytes;

    void io(Ar& a)
    {
        a.num("seg", seg);
        a.num("ptype", ptype);
        a.num("flags", flags);
        a.num("ts", ts);
        a.num("idWord", idWord);
        a.num("seed", seed);
        a.num("len", len);
        a.num("declared", declared);
        a.num("useBytes", useBytes);
        a.bytes("bytes", bytes);
    }
    Bytes payload() const
    {
        return useBytes ? bytes : fillBytes(seed, len);
    }
    uint16_t declaredLength() const
    {
        return static_cast<uint16_t>(declared < 0 ? (useBytes ? bytes.size() : len) : static_cast<size_t>(declared));
    }
};

struct FrameRecipe
{
    uint8_t kind{0};  // 0 CMP frame built from the fields below, 1 raw bytes
    uint8_t version{1};
    uint16_t dev{0};
    uint8_t stream{0};
    uint8_t msgType{1};
    uint16_t seq{0};
    std::vector<MsgRecipe> msgs;
    Bytes trailing;
    int32_t truncateAt{-1};
    Bytes raw;

    void io(Ar& a)
    {
        a.num("kind", kind);
        a.num("version", version);
        a.num("dev", dev);
        a.num("stream", stream);
        a.num("msgType", msgType);
        a.num("seq", seq);
        a.vec("msgs", msgs);
        a.bytes("trailing", trailing);
        a.num("truncateAt", truncateAt);
        a.bytes("raw", raw);
    }

    Bytes build() const
    {
        if (kind == 1)
            return raw;
        Bytes b;
        wire::CmpHdr h;
        h.version = version;
        h.device = dev;
        h.msgType = msgType;
        h.stream = stream;
        h.seq = seq;
        wire::putCmpHdr(b, h);
        for (const auto& m : msgs)
        {
            wire::MsgHdr mh;
            mh.timestamp = m.ts;
            mh.idWord = m.idWord;
            mh.flags = static_cast<uint8_t>((m.flags & ~wire::kFlagSegMask) | (m.seg << 2));
            mh.payloadType = m.ptype;
            mh.length = m.declaredLength();
            wire::putMsgHdr(b, mh);
            wire::putBytes(b, m.payload());
        }
        wire::putBytes(b, trailing);
        if (truncateAt >= 0 && static_cast<size_t>(truncateAt) < b.size())
            b.resize(static_cast<size_t>(truncateAt));
        return b;
    }
};

struct FrameHistory
{
    std::vector<FrameRecipe> frames;
    void io(Ar& a)
    {
        a.vec("frames", frames);
    }
};

// Coverage-guided mode: any field image of a history is a legal decoder input (arbitrary bytes are); only the work is bounded.
inline void boundHistory(FrameHistory& h, size_t maxFrames = 300, size_t maxBytes = 800000)
{
    if (h.frames.size() > maxFrames)
        h.frames.resize(maxFrames);
    size_t total = 0;
    for (auto& f : h.frames)
    {
        f.kind = f.kind ? 1 : 0;
        if (f.msgs.size() > 12)
            f.msgs.resize(12);
        if (f.raw.size() > 70000)
            f.raw.resize(70000);
        if (f.trailing.size() > 4096)
            f.trailing.resize(4096);
        for (auto& m : f.msgs)
        {
            m.useBytes = m.useBytes ? 1 : 0;
            if (m.len > 65535)
                m.len = 65535;
            if (m.bytes.size() > 4096)
                m.bytes.resize(4096);
            m.seg &= 3;
        }
        if (f.kind == 1)
        {
            f.msgs.clear();
            f.trailing.clear();
        }
        else
            f.raw.clear();
        size_t sz = f.kind == 1 ? f.raw.size() : 8 + f.trailing.size();
        for (const auto& m : f.msgs)
            sz += 16 + (m.useBytes ? m.bytes.size() : m.len);
        if (total + sz > maxBytes)
        {
            // the rest of the history would make the input too expensive: shrink this frame's payloads
            for (auto& m : f.msgs)
                m.len = std::min<uint32_t>(m.len, 64);
        }
        total += sz;
    }
}

// Domain-aware mutation of a frame history (coverage-guided mode): adds a frame that stands in a relation to an existing one - the
// continuation / last segment its endpoint expects next, a first segment of the same endpoint, an unsegmented frame of it, an exact copy,
// or the same frame on a neighbouring endpoint - at a later position.
inline void smartMutateHistory(FrameHistory& h, MutRng& rng)
{
    std::vector<size_t> cmp;
    for (size_t i = 0; i < h.frames.size(); ++i)
        if (h.frames[i].kind == 0)
            cmp.push_back(i);
    if (cmp.empty())
    {
        FrameRecipe f;
        MsgRecipe m;
        m.seg = 1;
        m.len = 8;
        f.msgs.push_back(m);
        h.frames.push_back(f);
        return;
    }
    const size_t i = cmp[rng.below(cmp.size())];
    FrameRecipe f = h.frames[i];
    // how many later frames of the same endpoint exist: the counter the endpoint would use next
    uint16_t later = 0;
    for (size_t k = i + 1; k < h.frames.size(); ++k)
        if (h.frames[k].kind == 0 && h.frames[k].dev == f.dev && h.frames[k].stream == f.stream)
            ++later;
    f.truncateAt = -1;
    f.trailing.clear();
    if (f.msgs.empty())
        f.msgs.push_back(MsgRecipe{});
    f.msgs.resize(1);
    MsgRecipe& m = f.msgs[0];
    m.declared = -1;
    m.useBytes = 0;
    m.bytes.clear();
    m.seed = static_cast<uint32_t>(rng.next());
    size_t at = h.frames.size();
    switch (rng.below(6))
    {
        case 0:  // the continuation the endpoint expects next, appended at the end
            f.seq = static_cast<uint16_t>(f.seq + 1 + later);
            m.seg = 2;
            break;
        case 1:  // the last segment
            f.seq = static_cast<uint16_t>(f.seq + 1 + later);
            m.seg = 3;
            break;
        case 2:  // a new first segment of the same endpoint
            f.seq = static_cast<uint16_t>(f.seq + 1 + later);
            m.seg = 1;
            break;
        case 3:  // an unsegmented frame of the same endpoint
            f.seq = static_cast<uint16_t>(f.seq + 1 + later);
            m.seg = 0;
            break;
        case 4:  // an exact copy a few positions later
            f = h.frames[i];
            at = std::min(h.frames.size(), i + 1 + rng.below(4));
            break;
        default:  // the same frame on a neighbouring endpoint (stream + 1 or device + 1), right behind it
            f = h.frames[i];
            if (rng.below(2))
                f.stream = static_cast<uint8_t>(f.stream + 1);
            else
                f.dev = static_cast<uint16_t>(f.dev + 1);
            at = i + 1;
            break;
    }
    h.frames.insert(h.frames.begin() + static_cast<long>(at), f);
}

// Compare a decoded packet with what the reference reassembler says must be delivered.
inline Verdict compareDelivered(const lib::Packet& p, const model::Delivered& e, const std::string& where, bool compareTypeAndBytes = true)
{
    Snap g = snap(p);
    VF_CHECK(g.hasPayload, where << ": packet without payload object");
    VF_CHECK(g.device == e.device && g.stream == e.stream,
             where << ": endpoint " << g.device << "/" << int(g.stream) << " expected " << e.device << "/" << int(e.stream));
    VF_CHECK(g.version == e.version, where << ": version " << int(g.version) << " expected " << int(e.version));
    VF_CHECK(g.ts == e.first.timestamp, where << ": timestamp " << g.ts << " expected " << e.first.timestamp);
    VF_CHECK((g.flags & ~0x0C) == (e.first.flags & ~0x0C), where << ": flags " << int(g.flags) << " expected " << int(e.first.flags));
    VF_CHECK(g.payloadLength == e.payload.size(), where << ": payload length " << g.payloadLength << " expected " << e.payload.size());
    if (e.msgType == wire::kMtData)
        VF_CHECK(g.ifId == e.first.interfaceId(), where << ": interface id " << g.ifId << " expected " << e.first.interfaceId());
    if (e.msgType == wire::kMtStatus || e.msgType == wire::kMtVendor)
        VF_CHECK(g.vendorId == e.first.vendorId(), where << ": vendor id " << g.vendorId << " expected " << e.first.vendorId());
    if (compareTypeAndBytes)
    {
        VF_CHECK(g.msgType == e.msgType, where << ": message type " << int(g.msgType) << " expected " << int(e.msgType));
        VF_CHECK(g.rawType == e.first.payloadType, where << ": payload type " << int(g.rawType) << " expected " << int(e.first.payloadType));
        VF_CHECK(g.payload == e.payload, where << ": payload bytes differ, got " << g.str() << " expected "
                                               << (e.payload.size() > 48 ? hexOf(e.payload.data(), 48) + "..." : hexOf(e.payload)));
    }
    return Verdict::pass();
}

}  // namespace vf
