// TECMP frame recipes, independent reference parse (MUST / NONE / EITHER expectations) and comparison (C15, C02).
#pragma once

#include <asam_cmp/tecmp_decoder.h>

#include "views.h"

namespace vf
{

struct TecmpRecipe
{
    // header
    uint8_t byte0{0};
    uint8_t device{0};
    uint16_t counter{0};
    uint8_t version{3};
    uint8_t msgType{3};
    uint16_t dataType{2};
    uint16_t reserved{0};
    uint16_t deviceFlags{0};
    uint32_t interfaceId{0};
    uint64_t timestamp{0};
    uint16_t dataFlags{0};
    int32_t payloadLength{-1};  // -1 = length of the payload built below (consistent form)
    // payload
    uint8_t kind{0};  // 0 CAN-style (arbId, len, data, trailer), 1 LIN-style (pid, len, data, trailer), 2 CM status, 3 bus status, 4 raw bytes
    uint32_t arbId{0};
    uint8_t pid{0};
    int32_t declaredLen{-1};  // inner length byte, -1 = data.size()
    Bytes data;
    Bytes trailer;
    uint32_t seed{0};  // status contents are derived from the seed
    uint16_t entries{0};
    Bytes extra;  // bytes appended after the payload (beyond payloadLength when consistent)
    int32_t cutAt{-1};  // truncate the whole frame
    uint8_t useSerial{0};  // status payloads: 1 = take the serial number from `serial` instead of deriving it from the seed
    uint32_t serial{0};
    int32_t vendorLen{-1};  // status payloads: value of the generic part's vendor-data-length field, -1 = the usual one (24 / 0)
    uint8_t special{0};     // bus status: 1..3 = entry (seed % entries) carries interface id 0 / all three fields 0 / all fields all-ones; 4..6 = an entry repeats fields of the entry before it
                            // (pseudo-random field values never hit the values a "missing" test would look for)

    void io(Ar& a)
    {
        a.num("byte0", byte0);
        a.num("device", device);
        a.num("counter", counter);
        a.num("version", version);
        a.num("msgType", msgType);
        a.num("dataType", dataType);
        a.num("reserved", reserved);
        a.num("deviceFlags", deviceFlags);
        a.num("interfaceId", interfaceId);
        a.num("timestamp", timestamp);
        a.num("dataFlags", dataFlags);
        a.num("payloadLength", payloadLength);
        a.num("kind", kind);
        a.num("arbId", arbId);
        a.num("pid", pid);
        a.num("declaredLen", declaredLen);
        a.bytes("data", data);
        a.bytes("trailer", trailer);
        a.num("seed", seed);
        a.num("entries", entries);
        a.bytes("extra", extra);
        a.num("cutAt", cutAt);
        a.optionalNum("useSerial", useSerial);
        a.optionalNum("serial", serial);
        a.optionalNum("vendorLen", vendorLen);
        a.optionalNum("special", special);
    }

    Bytes payload() const
    {
        Bytes p;
        switch (kind)
        {
            case 0:
                p = wire::buildTecmpCan(arbId, static_cast<uint8_t>(declaredLen < 0 ? data.size() : static_cast<size_t>(declaredLen)), data, trailer);
                break;
            case 1:
                p = wire::buildTecmpLin(pid, static_cast<uint8_t>(declaredLen < 0 ? data.size() : static_cast<size_t>(declaredLen)), data, trailer);
                break;
            case 2:
            {
                wire::TecmpStatusGeneric g;
                g.vendorId = static_cast<uint8_t>(mix(seed, 1));
                g.cmVersion = static_cast<uint8_t>(mix(seed, 2));
                g.cmType = static_cast<uint8_t>(mix(seed, 3));
                g.vendorDataLength = static_cast<uint16_t>(vendorLen < 0 ? 24 : vendorLen);
                g.deviceId = static_cast<uint16_t>(mix(seed, 4));
                g.serial = useSerial ? serial : ((mix(seed, 20) & 1) ? mix(seed, 5) : (mix(seed, 5) & 0xFFFF));
                wire::TecmpCmVendor v;
                v.swMajor = static_cast<uint8_t>(mix(seed, 6));
                v.swMinor = static_cast<uint8_t>(mix(seed, 7));
                v.swPatch = static_cast<uint8_t>(mix(seed, 8));
                v.hwMajor = static_cast<uint8_t>(mix(seed, 9));
                v.hwMinor = static_cast<uint8_t>(mix(seed, 10));
                v.bufferFill = static_cast<uint8_t>(mix(seed, 11));
                v.overflow = static_cast<uint8_t>(mix(seed, 12) & 1);
                v.bufferSize = mix(seed, 13);
                v.lifecycle = (static_cast<uint64_t>(mix(seed, 14)) << 32) | mix(seed, 15);
                v.voltWhole = static_cast<uint8_t>(mix(seed, 16));
                v.voltFrac = static_cast<uint8_t>(mix(seed, 17));
                v.chassisTemp = static_cast<uint8_t>(mix(seed, 18));
                v.siliconTemp = static_cast<uint8_t>(mix(seed, 19));
                wire::putTecmpGeneric(p, g);
                wire::putTecmpCmVendor(p, v);
                wire::putBytes(p, trailer);
                break;
            }
            case 3:
            {
                wire::TecmpStatusGeneric g;
                g.vendorId = static_cast<uint8_t>(mix(seed, 1));
                g.cmVersion = static_cast<uint8_t>(mix(seed, 2));
                g.cmType = static_cast<uint8_t>(mix(seed, 3));
                g.vendorDataLength = static_cast<uint16_t>(vendorLen < 0 ? 0 : vendorLen);
                g.deviceId = static_cast<uint16_t>(mix(seed, 4));
                g.serial = useSerial ? serial : mix(seed, 5);
                wire::putTecmpGeneric(p, g);
                for (uint16_t i = 0; i < entries; ++i)
                {
                    wire::TecmpBusEntry e;
                    e.interfaceId = mix(seed, 100 + 3u * i);
                    e.messagesTotal = mix(seed, 101 + 3u * i);
                    e.errorsTotal = mix(seed, 102 + 3u * i);
                    if (special >= 4 && entries >= 2 && i == seed % (entries - 1) + 1)
                    {
                        // neighbouring entries that are related: 4 = same interface id and messages total as the entry before (errors
                        // total differs), 5 = same interface id only, 6 = identical to the entry before
                        e.interfaceId = mix(seed, 100 + 3u * (i - 1));
                        if (special == 4 || special == 6)
                            e.messagesTotal = mix(seed, 101 + 3u * (i - 1));
                        if (special == 6)
                            e.errorsTotal = mix(seed, 102 + 3u * (i - 1));
                    }
                    else if (special && special < 4 && i == seed % entries)
                    {
                        if (special == 3)
                            e.interfaceId = e.messagesTotal = e.errorsTotal = 0xFFFFFFFFu;
                        else
                        {
                            e.interfaceId = 0;
                            if (special == 2)
                                e.messagesTotal = e.errorsTotal = 0;
                        }
                    }
                    wire::putTecmpBusEntry(p, e);
                }
                wire::putBytes(p, trailer);
                break;
            }
            default:
                p = data;
                break;
        }
        return p;
    }

    Bytes build() const
    {
        Bytes p = payload();
        wire::TecmpHdr h;
        h.byte0 = byte0;
        h.device = device;
        h.counter = counter;
        h.version = version;
        h.msgType = msgType;
        h.dataType = dataType;
        h.reserved = reserved;
        h.deviceFlags = deviceFlags;
        h.interfaceId = interfaceId;
        h.timestamp = timestamp;
        h.payloadLength = static_cast<uint16_t>(payloadLength < 0 ? p.size() : static_cast<size_t>(payloadLength));
        h.dataFlags = dataFlags;
        Bytes b;
        wire::putTecmpHdr(b, h);
        wire::putBytes(b, p);
        wire::putBytes(b, extra);
        if (cutAt >= 0 && static_cast<size_t>(cutAt) < b.size())
            b.resize(static_cast<size_t>(cutAt));
        return b;
    }
};

// ---------------------------------------------------------------------------------------------------
// Independent reference parse
// ---------------------------------------------------------------------------------------------------
enum class TecmpExpect
{
    must,    // exactly the listed packets
    none,    // no packet
    either   // the statement does not pin the outcome
};
struct TecmpExpectedPacket
{
    int kind{0};  // 0 CAN/CAN-FD, 1 LIN, 2 CM status, 3 IF status
    uint8_t device{0};
    uint64_t timestamp{0};
    uint32_t interfaceId{0};
    bool compareInterfaceId{true};
    uint32_t id{0};
    bool ide{false};
    Bytes data;
    bool hasChecksum{false};
    uint8_t checksum{0};
    uint32_t serial{0};
    uint8_t sw[3]{};
    uint8_t hw[2]{};
    uint32_t messagesTotal{0};
    uint32_t errorsTotal{0};
};
struct TecmpExpectation
{
    TecmpExpect what{TecmpExpect::none};
    std::vector<TecmpExpectedPacket> packets;
    std::string reason;
};

inline TecmpExpectation tecmpReference(const uint8_t* b, size_t n)
{
    TecmpExpectation x;
    auto none = [&](const char* why) {
        x.what = TecmpExpect::none;
        x.reason = why;
        return x;
    };
    auto either = [&](const char* why) {
        x.what = TecmpExpect::either;
        x.reason = why;
        return x;
    };
    if (n < wire::kTecmpHeader)
        return none("shorter than the TECMP header");
    wire::TecmpHdr h = wire::getTecmpHdr(b);
    if (h.payloadLength == 0)
        return none("payload length 0");
    if (n < wire::kTecmpHeader + h.payloadLength)
        return none("payload length beyond the buffer");
    const uint8_t* p = b + wire::kTecmpHeader;
    size_t rest = n - wire::kTecmpHeader;
    size_t plen = h.payloadLength;
    bool status = h.msgType == wire::kTecmpMtCmStatus || h.msgType == wire::kTecmpMtBusStatus;
    if (status && h.dataType != 0)
        return either("status message with a non-zero data type field");
    if (status && rest >= wire::kTecmpStatusGeneric)
    {
        uint16_t v = wire::get16(p + 4);
        if ((h.msgType == wire::kTecmpMtCmStatus && v != wire::kTecmpCmVendorData) || (h.msgType == wire::kTecmpMtBusStatus && v != 0))
            return either("status message with an unusual vendor data length field");
    }
    TecmpExpectedPacket e;
    e.device = h.device;
    e.timestamp = h.timestamp;
    e.interfaceId = h.interfaceId;
    switch (h.msgType)
    {
        case wire::kTecmpMtData:
            if (h.dataType == wire::kTecmpDtCan || h.dataType == wire::kTecmpDtCanFd)
            {
                if (rest < wire::kTecmpCanHeader)
                    return none("CAN payload shorter than its header");
                size_t len = p[4];
                if (len > rest - wire::kTecmpCanHeader)
                    return none("CAN length beyond the buffer");
                if (wire::kTecmpCanHeader + len > plen)
                    return either("CAN length fits the buffer but not the declared payload length");
                uint32_t arb = wire::get32(p);
                if (arb & 0x60000000u)
                    return either("arbitration id word with bits 29/30 set");
                e.kind = 0;
                e.id = arb & 0x1FFFFFFFu;
                e.ide = (arb >> 31) & 1;
                e.data.assign(p + 5, p + 5 + len);
                x.what = TecmpExpect::must;
                x.packets.push_back(e);
                return x;
            }
            if (h.dataType == wire::kTecmpDtLin)
            {
                if (rest < wire::kTecmpLinHeader)
                    return none("LIN payload shorter than its header");
                size_t len = p[1];
                if (len > rest - wire::kTecmpLinHeader)
                    return none("LIN length beyond the buffer");
                if (wire::kTecmpLinHeader + len > plen)
                    return either("LIN length fits the buffer but not the declared payload length");
                e.kind = 1;
                e.id = p[0] & 0x3F;
                e.data.assign(p + 2, p + 2 + len);
                if (wire::kTecmpLinHeader + len < plen)
                {
                    e.hasChecksum = true;
                    e.checksum = p[2 + len];
                }
                x.what = TecmpExpect::must;
                x.packets.push_back(e);
                return x;
            }
            return none("unsupported data type");
        case wire::kTecmpMtCmStatus:
        {
            const size_t need = wire::kTecmpStatusGeneric + wire::kTecmpCmVendorData;
            if (rest < need)
                return none("capture-module status shorter than its fixed part");
            if (plen < need)
                return either("capture-module status fits the buffer but not the declared payload length");
            e.kind = 2;
            e.compareInterfaceId = false;
            e.serial = wire::get32(p + 8);
            e.sw[0] = p[13];
            e.sw[1] = p[14];
            e.sw[2] = p[15];
            e.hw[0] = p[16];
            e.hw[1] = p[17];
            x.what = TecmpExpect::must;
            x.packets.push_back(e);
            return x;
        }
        case wire::kTecmpMtBusStatus:
        {
            if (rest < wire::kTecmpStatusGeneric)
                return none("bus status shorter than its generic part");
            if (plen < wire::kTecmpStatusGeneric)
                return either("bus status generic part beyond the declared payload length");
            size_t count = (plen - wire::kTecmpStatusGeneric) / wire::kTecmpBusEntry;
            if ((rest - wire::kTecmpStatusGeneric) / wire::kTecmpBusEntry != count)
                return either("complete entries after the declared payload length");
            for (size_t i = 0; i < count; ++i)
            {
                const uint8_t* q = p + wire::kTecmpStatusGeneric + i * wire::kTecmpBusEntry;
                TecmpExpectedPacket be = e;
                be.kind = 3;
                be.interfaceId = wire::get32(q);
                be.messagesTotal = wire::get32(q + 4);
                be.errorsTotal = wire::get32(q + 8);
                x.packets.push_back(be);
            }
            x.what = TecmpExpect::must;
            return x;
        }
        default:
            return none("unsupported message type");
    }
}

inline bool parseVersionString(std::string_view s, std::vector<unsigned>& out)
{
    // "v<int>.<int>[.<int>]": collect the integers in order
    out.clear();
    size_t i = 0;
    while (i < s.size())
    {
        if (s[i] >= '0' && s[i] <= '9')
        {
            unsigned v = 0;
            while (i < s.size() && s[i] >= '0' && s[i] <= '9')
                v = v * 10 + static_cast<unsigned>(s[i++] - '0');
            out.push_back(v);
        }
        else
            ++i;
    }
    return true;
}

inline Verdict compareTecmpPacket(const lib::Packet& p, const TecmpExpectedPacket& e, size_t index)
{
    std::ostringstream w;
    w << "packet " << index;
    VF_CHECK(p.verifHasPayload(), w.str() << ": no payload");
    VF_CHECK(p.isValid(), w.str() << ": converted packet is not valid");
    VF_CHECK(p.getDeviceId() == e.device, w.str() << ": device id " << p.getDeviceId() << " wire " << int(e.device));
    VF_CHECK(p.getTimestamp() == e.timestamp, w.str() << ": timestamp " << p.getTimestamp() << " wire " << e.timestamp);
    if (e.compareInterfaceId)
        VF_CHECK(p.getInterfaceId() == e.interfaceId, w.str() << ": interface id " << p.getInterfaceId() << " wire " << e.interfaceId);
    uint32_t type = p.getPayload().getType().getType();
    ViewStats vs;
    VF_TRY(sweepPacket(p, vs));
    switch (e.kind)
    {
        case 0:
        {
            VF_CHECK(type == lib::PayloadType::can || type == lib::PayloadType::canFd, w.str() << ": payload type 0x" << std::hex << type << " is not CAN / CAN-FD");
            const auto& c = static_cast<const lib::CanPayloadBase&>(p.getPayload());
            VF_CHECK(c.getId() == e.id, w.str() << ": arbitration id 0x" << std::hex << c.getId() << " wire 0x" << e.id);
            VF_CHECK(c.getDataLength() == e.data.size(), w.str() << ": data length " << int(c.getDataLength()) << " wire " << e.data.size());
            VF_CHECK(e.data.empty() || (c.getData() && memcmp(c.getData(), e.data.data(), e.data.size()) == 0), w.str() << ": CAN data bytes differ");
            break;
        }
        case 1:
        {
            VF_CHECK(type == lib::PayloadType::lin, w.str() << ": payload type 0x" << std::hex << type << " is not LIN");
            const auto& c = static_cast<const lib::LinPayload&>(p.getPayload());
            VF_CHECK(c.getLinId() == e.id, w.str() << ": LIN id " << int(c.getLinId()) << " wire " << e.id);
            VF_CHECK(c.getDataLength() == e.data.size(), w.str() << ": data length " << int(c.getDataLength()) << " wire " << e.data.size());
            VF_CHECK(e.data.empty() || (c.getData() && memcmp(c.getData(), e.data.data(), e.data.size()) == 0), w.str() << ": LIN data bytes differ");
            if (e.hasChecksum)
                VF_CHECK(c.getChecksum() == e.checksum, w.str() << ": checksum " << int(c.getChecksum()) << " wire " << int(e.checksum));
            break;
        }
        case 2:
        {
            VF_CHECK(type == lib::PayloadType::cmStatMsg, w.str() << ": payload type 0x" << std::hex << type << " is not capture-module status");
            const auto& c = static_cast<const lib::CaptureModulePayload&>(p.getPayload());
            VF_CHECK(std::string(c.getSerialNumber()) == std::to_string(e.serial), w.str() << ": serial number '" << c.getSerialNumber() << "' wire " << e.serial);
            std::vector<unsigned> sw, hw;
            parseVersionString(c.getSoftwareVersion(), sw);
            parseVersionString(c.getHardwareVersion(), hw);
            VF_CHECK(sw.size() == 3 && sw[0] == e.sw[0] && sw[1] == e.sw[1] && sw[2] == e.sw[2],
                     w.str() << ": software version '" << c.getSoftwareVersion() << "' wire " << int(e.sw[0]) << "." << int(e.sw[1]) << "." << int(e.sw[2]));
            VF_CHECK(hw.size() == 2 && hw[0] == e.hw[0] && hw[1] == e.hw[1],
                     w.str() << ": hardware version '" << c.getHardwareVersion() << "' wire " << int(e.hw[0]) << "." << int(e.hw[1]));
            break;
        }
        case 3:
        {
            VF_CHECK(type == lib::PayloadType::ifStatMsg, w.str() << ": payload type 0x" << std::hex << type << " is not interface status");
            const auto& c = static_cast<const lib::InterfacePayload&>(p.getPayload());
            VF_CHECK(c.getInterfaceId() == e.interfaceId, w.str() << ": payload interface id " << c.getInterfaceId() << " wire " << e.interfaceId);
            VF_CHECK(c.getMsgTotalRx() == e.messagesTotal, w.str() << ": messages total " << c.getMsgTotalRx() << " wire " << e.messagesTotal);
            VF_CHECK(c.getErrorsTotalRx() == e.errorsTotal, w.str() << ": errors total " << c.getErrorsTotalRx() << " wire " << e.errorsTotal);
            break;
        }
    }
    return Verdict::pass();
}

}  // namespace vf
