// Library-facing helpers shared by the drivers: packet recipes -> library packets, getter snapshots.
#pragma once

#include <memory>
#include <string_view>

#include <asam_cmp/analog_payload.h>
#include <asam_cmp/can_fd_payload.h>
#include <asam_cmp/can_payload.h>
#include <asam_cmp/capture_module_payload.h>
#include <asam_cmp/decoder.h>
#include <asam_cmp/encoder.h>
#include <asam_cmp/ethernet_payload.h>
#include <asam_cmp/interface_payload.h>
#include <asam_cmp/lin_payload.h>
#include <asam_cmp/packet.h>
#include <asam_cmp/status.h>

#include <sstream>

#include "../oracle/model.h"
#include "../oracle/wire.h"
#include "pbt.h"

namespace vf
{

namespace lib = ASAM::CMP;

// Copies of library objects are used where the unchanged library's classes are copyable (they all are, implicitly); the helpers keep the
// harness compiling against a tree in which a class lost its copy constructor - such a tree is judged by everything else.
template <class D>
std::unique_ptr<D> copyIfCopyable(const D& d)
{
    if constexpr (std::is_copy_constructible_v<D>)
        return std::make_unique<D>(d);
    else
        return nullptr;
}
template <class D>
D copyOrFresh(const D* src)
{
    if constexpr (std::is_copy_constructible_v<D>)
    {
        if (src)
            return D(*src);
    }
    return D();
}

// ---------------------------------------------------------------------------------------------------
// Snapshot of everything observable on a packet (getters only, no operator==)
// ---------------------------------------------------------------------------------------------------
struct Snap
{
    bool hasPayload{false};
    bool valid{false};
    uint8_t version{0};
    uint16_t device{0};
    uint8_t stream{0};
    uint16_t seq{0};
    uint64_t ts{0};
    uint32_t ifId{0};
    uint16_t vendorId{0};
    uint8_t flags{0};
    uint8_t segType{0};
    uint32_t type32{0};
    uint8_t msgType{0};
    uint8_t rawType{0};
    uint16_t payloadLength{0};
    Bytes payload;

    bool operator==(const Snap& o) const
    {
        return hasPayload == o.hasPayload && valid == o.valid && version == o.version && device == o.device && stream == o.stream &&
               seq == o.seq && ts == o.ts && ifId == o.ifId && vendorId == o.vendorId && flags == o.flags && segType == o.segType &&
               type32 == o.type32 && msgType == o.msgType && rawType == o.rawType && payloadLength == o.payloadLength &&
               payload == o.payload;
    }
    bool operator!=(const Snap& o) const
    {
        return !(*this == o);
    }
    std::string str() const
    {
        std::ostringstream os;
        os << "{has=" << hasPayload << " valid=" << valid << " ver=" << int(version) << " dev=" << device << " stream=" << int(stream)
           << " seq=" << seq << " ts=" << ts << " if=" << ifId << " vendor=" << vendorId << " flags=" << int(flags)
           << " seg=" << int(segType) << " type=0x" << std::hex << type32 << std::dec << " len=" << payloadLength << " bytes="
           << (payload.size() > 48 ? hexOf(payload.data(), 48) + "..." : hexOf(payload)) << "}";
        return os.str();
    }
};

inline Snap snap(const lib::Packet& p)
{
    Snap s;
    s.hasPayload = p.verifHasPayload();
    s.valid = p.isValid();
    s.version = p.getVersion();
    s.device = p.getDeviceId();
    s.stream = p.getStreamId();
    s.seq = p.getSequenceCounter();
    s.ts = p.getTimestamp();
    s.ifId = p.getInterfaceId();
    s.vendorId = p.getVendorId();
    s.flags = p.getCommonFlags();
    s.segType = static_cast<uint8_t>(p.getSegmentType());
    s.payloadLength = p.getPayloadLength();
    if (s.hasPayload)
    {
        const lib::Payload& pl = p.getPayload();
        s.type32 = pl.getType().getType();
        s.msgType = static_cast<uint8_t>(p.getMessageType());
        s.rawType = p.getPayloadType();
        if (pl.getLength())
            s.payload.assign(pl.getRawPayload(), pl.getRawPayload() + pl.getLength());
    }
    return s;
}

// ---------------------------------------------------------------------------------------------------
// Packet recipes
// ---------------------------------------------------------------------------------------------------
enum RecipeKind : uint8_t
{
    rkGeneric = 0,
    rkCan = 1,
    rkCanFd = 2,
    rkLin = 3,
    rkAnalog = 4,
    rkEthernet = 5,
    rkCmStatus = 6,
    rkIfStatus = 7
};
inline const char* kindName(uint8_t k)
{
    static const char* n[] = {"generic", "can", "canfd", "lin", "analog", "ethernet", "cmstatus", "ifstatus"};
    return k < 8 ? n[k] : "?";
}

struct PacketRecipe
{
    uint8_t kind{rkGeneric};
    uint8_t msgType{1};  // generic only
    uint8_t ptype{0x20};  // generic only
    uint32_t len{1};  // generic: payload length; typed: length of the variable part (data / samples / strings+vendor)
    uint32_t seed{0};
    uint64_t ts{0};
    uint32_t ifId{0};
    uint16_t vendorId{0};
    uint8_t flags{0};
    uint8_t viaApi{0};
    uint8_t emptyPayload{0};  // generic only: 1 = a payload object of zero bytes (C09 / C10; the round-trip properties exclude it)
    uint8_t inPlace{0};       // CAN / CAN-FD / LIN / Ethernet / analog: 1 = the packet first gets the payload with another data length,
                              // then the data is set in place through the non-const Packet::getPayload() (as the library's example does)

    void io(Ar& a)
    {
        a.num("kind", kind);
        a.num("msgType", msgType);
        a.num("ptype", ptype);
        a.num("len", len);
        a.num("seed", seed);
        a.num("ts", ts);
        a.num("ifId", ifId);
        a.num("vendorId", vendorId);
        a.num("flags", flags);
        a.num("viaApi", viaApi);
        a.optionalNum("emptyPayload", emptyPayload);
        a.optionalNum("inPlace", inPlace);
    }

    uint8_t messageType() const
    {
        switch (kind)
        {
            case rkGeneric:
                return msgType;
            case rkCmStatus:
            case rkIfStatus:
                return wire::kMtStatus;
            default:
                return wire::kMtData;
        }
    }
    uint8_t payloadTypeByte() const
    {
        switch (kind)
        {
            case rkCan:
                return wire::kPtCan;
            case rkCanFd:
                return wire::kPtCanFd;
            case rkLin:
                return wire::kPtLin;
            case rkAnalog:
                return wire::kPtAnalog;
            case rkEthernet:
                return wire::kPtEthernet;
            case rkCmStatus:
                return wire::kPtCmStatus;
            case rkIfStatus:
                return wire::kPtIfStatus;
            default:
                return ptype;
        }
    }
    static size_t headerSize(uint8_t kind)
    {
        switch (kind)
        {
            case rkCan:
            case rkCanFd:
                return wire::kCanHeader;
            case rkLin:
                return wire::kLinHeader;
            case rkAnalog:
                return wire::kAnalogHeader;
            case rkEthernet:
                return wire::kEthHeader;
            case rkCmStatus:
                return wire::kCmStatusHeader + 10 + 8;  // five length prefixes + up to 8 NUL/pad bytes
            case rkIfStatus:
                return wire::kIfStatusHeader + 4 + 1;
            default:
                return 0;
        }
    }
    // largest value of `len` the kind admits
    static uint32_t maxLen(uint8_t kind)
    {
        switch (kind)
        {
            case rkCan:
            case rkCanFd:
            case rkLin:
                return 255;
            case rkGeneric:
                return 65535;
            default:
                return static_cast<uint32_t>(65535 - headerSize(kind));
        }
    }
};

// Field values derived deterministically from the recipe's seed; shared by the oracle builder and the API path.
struct RecipeFields
{
    wire::CanFields can;
    wire::LinFields lin;
    wire::EthFields eth;
    wire::AnalogFields analog;
    wire::CmFields cm;
    wire::IfFields ifs;
    Bytes data;  // data / samples
    std::string str[4];
    Bytes vendor;
    Bytes streamIds;
};

inline uint32_t mix(uint32_t seed, uint32_t salt)
{
    uint32_t x = seed * 2654435761u ^ (salt * 0x85ebca6bu + 0x9e3779b9u);
    x ^= x >> 16;
    x *= 0x7feb352du;
    x ^= x >> 15;
    x *= 0x846ca68bu;
    x ^= x >> 16;
    return x;
}
inline std::string fillString(uint32_t seed, size_t n)
{
    std::string s(n, 'a');
    for (size_t i = 0; i < n; ++i)
        s[i] = static_cast<char>(1 + (fillByte(seed, i) % 254));  // never NUL
    return s;
}

// Four string views for CaptureModulePayload::setData that are NOT followed by a NUL: each string lives in a heap block of
// exactly its size (what follows is the allocator's business - red zone under ASan, poison in the C20 allocator, unaddressable
// under memcheck).  A std::string_view promises nothing about the byte behind it.
struct UnterminatedViews
{
    std::unique_ptr<char[]> block[4];
    std::string_view view[4];
    explicit UnterminatedViews(const std::string (&str)[4])
    {
        for (int i = 0; i < 4; ++i)
        {
            block[i].reset(new char[str[i].size() ? str[i].size() : 1]);
            if (!str[i].empty())
                memcpy(block[i].get(), str[i].data(), str[i].size());
            view[i] = std::string_view(block[i].get(), str[i].size());
        }
    }
};

inline RecipeFields deriveFields(const PacketRecipe& r)
{
    RecipeFields f;
    const uint32_t s = r.seed;
    // one recipe in sixteen has every derived numeric field 0, one in sixteen all-ones (within the field's valid bits):
    // pseudo-random words never take the values a "missing / unset" test looks for
    auto mx = [s](uint32_t k) -> uint32_t { return s % 16 == 7 ? 0u : s % 16 == 9 ? 0xFFFFFFFFu : mix(s, k); };
    switch (r.kind)
    {
        case rkCan:
        case rkCanFd:
        {
            uint32_t n = std::min<uint32_t>(r.len, 255);
            f.data = fillBytes(s ^ 0x11, n);
            f.can.flags = static_cast<uint16_t>(mx(1) & 0x3C00);  // r0, srrDom, brs, esi: no error bits
            f.can.idWord = mx(2);                                 // 29-bit id + rsvd/rtr/ide bits
            if (r.kind == rkCan)
                f.can.crcWord = mx(3) & 0x80007FFFu;
            else
                f.can.crcWord = mx(3) & 0xC1FFFFFFu;
            f.can.errorPosition = 0;
            bool defined;
            f.can.dlc = wire::canDlcFor(static_cast<uint8_t>(n), defined);
            f.can.dataLength = static_cast<uint8_t>(n);
            break;
        }
        case rkLin:
        {
            uint32_t n = std::min<uint32_t>(r.len, 255);
            f.data = fillBytes(s ^ 0x22, n);
            f.lin.flags = (mx(1) & 1) ? 0x0100 : 0;
            f.lin.pid = static_cast<uint8_t>(mx(2));
            f.lin.checksum = static_cast<uint8_t>(mx(3));
            f.lin.dataLength = static_cast<uint8_t>(n);
            break;
        }
        case rkEthernet:
        {
            uint32_t n = std::min<uint32_t>(r.len, PacketRecipe::maxLen(rkEthernet));
            f.data = fillBytes(s ^ 0x33, n);
            f.eth.flags = (mx(1) & 1) ? 0x0080 : 0;
            f.eth.dataLength = static_cast<uint16_t>(n);
            break;
        }
        case rkAnalog:
        {
            uint32_t n = std::min<uint32_t>(r.len, PacketRecipe::maxLen(rkAnalog));
            unsigned dt = mx(1) & 1;
            n -= n % (dt ? 4 : 2);
            f.data = fillBytes(s ^ 0x44, n);
            f.analog.flags = static_cast<uint16_t>(dt);
            f.analog.unit = static_cast<uint8_t>(mx(2) % 0x55);
            // finite floats only (the API path passes them by value)
            f.analog.intervalBits = wire::floatBits(static_cast<float>(mx(3) % 100000) / 7.0f);
            f.analog.offsetBits = wire::floatBits(-static_cast<float>(mx(4) % 100000) / 3.0f);
            f.analog.scalarBits = wire::floatBits(static_cast<float>(mx(5) % 1000) * 0.125f);
            break;
        }
        case rkCmStatus:
        {
            uint32_t n = std::min<uint32_t>(r.len, PacketRecipe::maxLen(rkCmStatus));
            uint32_t w[5], sum = 0;
            for (int i = 0; i < 5; ++i)
            {
                w[i] = mx(10 + i) % 8;
                sum += w[i];
            }
            if (!sum)
            {
                w[0] = 1;
                sum = 1;
            }
            uint32_t used = 0;
            for (int i = 0; i < 4; ++i)
            {
                uint32_t l = n * w[i] / sum;
                f.str[i] = fillString(s ^ (0x50 + i), l);
                used += l;
            }
            f.vendor = fillBytes(s ^ 0x55, n - used);
            f.cm.uptime = (static_cast<uint64_t>(mx(1)) << 32) | mx(2);
            f.cm.gmIdentity = (static_cast<uint64_t>(mx(3)) << 32) | mx(4);
            f.cm.gmClockQuality = mx(5);
            f.cm.currentUtcOffset = static_cast<uint16_t>(mx(6));
            f.cm.timeSource = static_cast<uint8_t>(mx(7));
            f.cm.domainNumber = static_cast<uint8_t>(mx(8));
            f.cm.gptpFlags = static_cast<uint8_t>(mx(9));
            break;
        }
        case rkIfStatus:
        {
            uint32_t n = std::min<uint32_t>(r.len, PacketRecipe::maxLen(rkIfStatus));
            uint32_t ids = n * (mx(10) % 5) / 4;
            if (ids > n)
                ids = n;
            f.streamIds = fillBytes(s ^ 0x66, ids);
            f.vendor = fillBytes(s ^ 0x67, n - ids);
            f.ifs.interfaceId = mx(1);
            f.ifs.msgTotalRx = mx(2);
            f.ifs.msgTotalTx = mx(3);
            f.ifs.msgDroppedRx = mx(4);
            f.ifs.msgDroppedTx = mx(5);
            f.ifs.errorsTotalRx = mx(6);
            f.ifs.errorsTotalTx = mx(7);
            f.ifs.interfaceType = static_cast<uint8_t>(mx(8));
            f.ifs.interfaceStatus = static_cast<uint8_t>(mx(9) % 3);
            f.ifs.featureSupportBitmask = mx(11);
            break;
        }
        default:
            f.data = fillBytes(s ^ 0x77, r.emptyPayload ? 0u : std::max<uint32_t>(1, std::min<uint32_t>(r.len, 65535)));
            break;
    }
    return f;
}

// payload bytes as the independent builders lay them out
inline Bytes oracleBytes(const PacketRecipe& r, const RecipeFields& f)
{
    switch (r.kind)
    {
        case rkCan:
        case rkCanFd:
            return wire::buildCan(f.can, f.data);
        case rkLin:
            return wire::buildLin(f.lin, f.data);
        case rkEthernet:
            return wire::buildEth(f.eth, f.data);
        case rkAnalog:
            return wire::buildAnalog(f.analog, f.data);
        case rkCmStatus:
            return wire::buildCm(f.cm, f.str[0], f.str[1], f.str[2], f.str[3], f.vendor);
        case rkIfStatus:
            return wire::buildIf(f.ifs, f.streamIds, f.vendor);
        default:
            return f.data;
    }
}

// the same logical content through the library's builder API
inline lib::Payload apiPayload(const PacketRecipe& r, const RecipeFields& f)
{
    static const uint8_t dummy = 0;
    auto ptr = [&](const Bytes& b) { return b.empty() ? &dummy : b.data(); };
    switch (r.kind)
    {
        case rkCan:
        {
            lib::CanPayload p;
            p.setFlags(f.can.flags);
            p.setId(f.can.idWord & 0x1FFFFFFF);
            p.setRsvd((f.can.idWord >> 29) & 1);
            p.setRtr((f.can.idWord >> 30) & 1);
            p.setIde((f.can.idWord >> 31) & 1);
            p.setCrc(static_cast<uint16_t>(f.can.crcWord & 0x7FFF));
            p.setCrcSupport((f.can.crcWord >> 31) & 1);
            p.setData(ptr(f.data), static_cast<uint8_t>(f.data.size()));
            return p;
        }
        case rkCanFd:
        {
            lib::CanFdPayload p;
            p.setFlags(f.can.flags);
            p.setId(f.can.idWord & 0x1FFFFFFF);
            p.setRsvd((f.can.idWord >> 29) & 1);
            p.setRrs((f.can.idWord >> 30) & 1);
            p.setIde((f.can.idWord >> 31) & 1);
            p.setCrc(f.can.crcWord & 0x1FFFFF);
            p.setSbc(static_cast<uint8_t>((f.can.crcWord >> 21) & 7));
            p.setSbcParity((f.can.crcWord >> 24) & 1);
            p.setSbcSupport((f.can.crcWord >> 30) & 1);
            p.setCrcSupport((f.can.crcWord >> 31) & 1);
            p.setData(ptr(f.data), static_cast<uint8_t>(f.data.size()));
            return p;
        }
        case rkLin:
        {
            lib::LinPayload p;
            p.setFlags(f.lin.flags);
            p.setLinId(f.lin.pid & 0x3F);
            p.setParityBits(f.lin.pid >> 6);
            p.setChecksum(f.lin.checksum);
            p.setData(ptr(f.data), static_cast<uint8_t>(f.data.size()));
            return p;
        }
        case rkEthernet:
        {
            lib::EthernetPayload p;
            p.setFlags(f.eth.flags);
            p.setData(ptr(f.data), static_cast<uint16_t>(f.data.size()));
            return p;
        }
        case rkAnalog:
        {
            lib::AnalogPayload p;
            p.setSampleDt((f.analog.flags & 1) ? lib::AnalogPayload::SampleDt::aInt32 : lib::AnalogPayload::SampleDt::aInt16);
            p.setUnit(static_cast<lib::AnalogPayload::Unit>(f.analog.unit));
            p.setSampleInterval(wire::bitsFloat(f.analog.intervalBits));
            p.setSampleOffset(wire::bitsFloat(f.analog.offsetBits));
            p.setSampleScalar(wire::bitsFloat(f.analog.scalarBits));
            p.setData(ptr(f.data), f.data.size());
            return p;
        }
        case rkCmStatus:
        {
            lib::CaptureModulePayload p;
            p.setUptime(f.cm.uptime);
            p.setGmIdentity(f.cm.gmIdentity);
            p.setGmClockQuality(f.cm.gmClockQuality);
            p.setCurrentUtcOffset(f.cm.currentUtcOffset);
            p.setTimeSource(f.cm.timeSource);
            p.setDomainNumber(f.cm.domainNumber);
            p.setGptpFlags(f.cm.gptpFlags);
            if (r.seed & 1)
            {
                UnterminatedViews uv(f.str);
                p.setData(uv.view[0], uv.view[1], uv.view[2], uv.view[3], f.vendor);
            }
            else
                p.setData(f.str[0], f.str[1], f.str[2], f.str[3], f.vendor);
            return p;
        }
        case rkIfStatus:
        {
            lib::InterfacePayload p;
            p.setData(ptr(f.streamIds), static_cast<uint16_t>(f.streamIds.size()), ptr(f.vendor), static_cast<uint16_t>(f.vendor.size()));
            p.setInterfaceId(f.ifs.interfaceId);
            p.setMsgTotalRx(f.ifs.msgTotalRx);
            p.setMsgTotalTx(f.ifs.msgTotalTx);
            p.setMsgDroppedRx(f.ifs.msgDroppedRx);
            p.setMsgDroppedTx(f.ifs.msgDroppedTx);
            p.setErrorsTotalRx(f.ifs.errorsTotalRx);
            p.setErrorsTotalTx(f.ifs.errorsTotalTx);
            p.setInterfaceType(f.ifs.interfaceType);
            p.setInterfaceStatus(static_cast<lib::InterfacePayload::InterfaceStatus>(f.ifs.interfaceStatus));
            p.setFeatureSupportBitmask(f.ifs.featureSupportBitmask);
            return p;
        }
        default:
            break;
    }
    return lib::Payload(lib::PayloadType(static_cast<lib::CmpHeader::MessageType>(r.msgType), r.ptype), ptr(f.data), f.data.size());
}

inline lib::Payload buildPayload(const PacketRecipe& r)
{
    RecipeFields f = deriveFields(r);
    if (r.viaApi && r.kind != rkGeneric)
        return apiPayload(r, f);
    Bytes b = oracleBytes(r, f);
    static const uint8_t dummy = 0;
    return lib::Payload(lib::PayloadType(static_cast<lib::CmpHeader::MessageType>(r.messageType()), r.payloadTypeByte()),
                        b.empty() ? &dummy : b.data(), b.size());
}

// fills an existing packet in place (no Packet copy / move involved)
inline void fillPacket(lib::Packet& p, const PacketRecipe& r, uint8_t version)
{
    if (r.inPlace && r.kind >= rkCan && r.kind <= rkEthernet)
    {
        // the payload object inside the packet is resized after it was handed over: header fields come from the first build
        // (they depend on the seed only), the data and its length from the edit in place
        PacketRecipe first = r;
        first.len = r.len >= 2 ? r.len / 2 : r.len + 5;
        first.len = std::min<uint32_t>(first.len, PacketRecipe::maxLen(r.kind));
        p.setPayload(buildPayload(first));
        RecipeFields f = deriveFields(r);
        static const uint8_t dummy = 0;
        const uint8_t* data = f.data.empty() ? &dummy : f.data.data();
        switch (r.kind)
        {
            case rkCan:
                static_cast<lib::CanPayload&>(p.getPayload()).setData(data, static_cast<uint8_t>(f.data.size()));
                break;
            case rkCanFd:
                static_cast<lib::CanFdPayload&>(p.getPayload()).setData(data, static_cast<uint8_t>(f.data.size()));
                break;
            case rkLin:
                static_cast<lib::LinPayload&>(p.getPayload()).setData(data, static_cast<uint8_t>(f.data.size()));
                break;
            case rkEthernet:
                static_cast<lib::EthernetPayload&>(p.getPayload()).setData(data, static_cast<uint16_t>(f.data.size()));
                break;
            default:
                static_cast<lib::AnalogPayload&>(p.getPayload()).setData(data, f.data.size());
                break;
        }
    }
    else
        p.setPayload(buildPayload(r));
    // the packet's own frame-level members are set to values that differ from any encoder configuration: an encoder must
    // take device id, stream id and counter from its own state, never from the packets
    p.setDeviceId(static_cast<uint16_t>(mix(r.seed, 77) | 0x0100));
    p.setStreamId(static_cast<uint8_t>(mix(r.seed, 78) | 0x40));
    p.setSequenceCounter(static_cast<uint16_t>(mix(r.seed, 79)));
    p.setVersion(version);
    p.setTimestamp(r.ts);
    p.setInterfaceId(r.ifId);
    p.setVendorId(r.vendorId);
    p.setCommonFlags(r.flags);
}

inline lib::Packet buildPacket(const PacketRecipe& r, uint8_t version)
{
    lib::Packet p;
    fillPacket(p, r, version);
    return p;
}

// ---------------------------------------------------------------------------------------------------
// Decode helper: every buffer goes through an exactly-sized heap block that is freed before results are used
// (ASan red zones catch over-reads by one byte, use-after-free catches packets that alias the input).
// ---------------------------------------------------------------------------------------------------
inline std::vector<std::shared_ptr<lib::Packet>> decodeOwned(lib::Decoder& d, const uint8_t* p, size_t n)
{
    uint8_t* heap = static_cast<uint8_t*>(malloc(n ? n : 1));
    if (n)
        memcpy(heap, p, n);
    auto out = d.decode(heap, n);
    free(heap);
    return out;
}
inline std::vector<std::shared_ptr<lib::Packet>> decodeOwned(lib::Decoder& d, const Bytes& b)
{
    return decodeOwned(d, b.data(), b.size());
}

}  // namespace vf
