// Independent workloads on own objects (C19: one per thread; C20: replayed under memcheck / with poisoned heaps).
// A workload is plain data; run() executes it on fresh objects and folds everything observable into a digest.
#pragma once

#include "c02_oracle.h"
#include "gen_enc.h"
#include "gen_frames.h"
#include "status_ops.h"
#include "views.h"

namespace vf
{

struct BuilderStep
{
    uint8_t cls{0};
    uint32_t seed{0};
    uint32_t len{0};
    void io(Ar& a)
    {
        a.num("cls", cls);
        a.num("seed", seed);
        a.num("len", len);
    }
};

struct Workload
{
    uint8_t kind{0};  // 0 encoder calls, 1 decoder history, 2 TECMP static decoder, 3 status tracker, 4 payload builders, 5 codec round trip
    std::vector<EncCase> enc;
    FrameHistory hist;
    std::vector<TecmpRecipe> tecmp;
    std::vector<StatusOp> status;
    std::vector<BuilderStep> builders;
    void io(Ar& a)
    {
        a.num("kind", kind);
        a.vec("enc", enc);
        hist.io(a);
        a.vec("tecmp", tecmp);
        a.vec("status", status);
        a.vec("builders", builders);
    }
};

// every output byte goes through this sink: a digest for comparisons, and (C20) a hook that checks definedness
struct OutputSink
{
    uint64_t digest{1469598103934665603ull};
    size_t tail{0};  // C20 only: a reported view that leaves the payload is followed for up to this many bytes past the payload's end
                     // (the C20 allocator over-allocates every block by 16 poisoned bytes, so the read is inside the allocation natively
                     // and an invalid read under memcheck); 0 = views are only read when they lie inside the payload
    std::function<void(const void*, size_t, const char*)> inspect;  // optional
    size_t bytes{0};
    void put(const void* p, size_t n, const char* what)
    {
        if (inspect && n)
            inspect(p, n, what);
        digest = fnv1a(static_cast<const uint8_t*>(p), n, digest);
        bytes += n;
    }
    template <class T>
    void num(T v, const char* what)
    {
        put(&v, sizeof(v), what);
    }
};

inline void sinkPacket(const lib::Packet& p, OutputSink& out)
{
    out.num<uint8_t>(p.verifHasPayload(), "packet.hasPayload");
    out.num(p.getVersion(), "packet.version");
    out.num(p.getDeviceId(), "packet.deviceId");
    out.num(p.getStreamId(), "packet.streamId");
    out.num(p.getSequenceCounter(), "packet.sequenceCounter");
    out.num(p.getTimestamp(), "packet.timestamp");
    out.num(p.getInterfaceId(), "packet.interfaceId");
    out.num(p.getVendorId(), "packet.vendorId");
    out.num(p.getCommonFlags(), "packet.commonFlags");
    out.num(static_cast<uint8_t>(p.getSegmentType()), "packet.segmentType");
    out.num(p.getPayloadLength(), "packet.payloadLength");
    if (p.verifHasPayload())
    {
        const lib::Payload& pl = p.getPayload();
        out.num(pl.getType().getType(), "payload.type");
        out.num<uint8_t>(pl.isValid(), "payload.valid");
        out.put(pl.getRawPayload(), pl.getLength(), "payload.bytes");
        uint8_t cmp[8], msg[16];
        p.getRawCmpHeader(cmp);
        p.getRawMessageHeader(msg);
        out.put(cmp, 8, "packet.rawCmpHeader");
        out.put(msg, 16, "packet.rawMessageHeader");
    }
}

// Typed accessors of a valid typed packet are outputs too: every scalar goes into the sink under its own name, every view as
// (length, bytes) - the bytes only when the view lies inside the payload (C03 owns the out-of-bounds case; this sink must not
// read outside itself).
inline void sinkView(const lib::Payload& pl, const void* ptr, size_t len, OutputSink& out, const char* what)
{
    out.num<uint64_t>(len, what);
    const uint8_t* raw = pl.getRawPayload();
    const uint8_t* p = static_cast<const uint8_t*>(ptr);
    if (p && len && p >= raw && p <= raw + pl.getLength() && len <= static_cast<size_t>(raw + pl.getLength() - p))
        out.put(p, len, what);
    else if (out.tail && p && len && p >= raw && p <= raw + pl.getLength())
        out.put(p, std::min(len, static_cast<size_t>(raw + pl.getLength() - p) + out.tail), what);  // what the view's user reads first
}
inline void sinkTyped(const lib::Packet& pk, OutputSink& out)
{
    if (!pk.verifHasPayload() || !pk.isValid())
        return;
    const lib::Payload& pl = pk.getPayload();
    uint8_t cls;
    if (!classOfType(pl.getType().getType(), cls))
        return;
    switch (cls)
    {
        case pcCan:
        case pcCanFd:
        {
            const auto& p = static_cast<const lib::CanPayloadBase&>(pl);
            out.num(p.getFlags(), "can.flags");
            out.num(p.getId(), "can.id");
            out.num<uint8_t>(p.getRsvd(), "can.rsvd");
            out.num<uint8_t>(p.getIde(), "can.ide");
            out.num<uint8_t>(p.getCrcSupport(), "can.crcSupport");
            out.num(p.getErrorPosition(), "can.errorPosition");
            out.num(p.getDlc(), "can.dlc");
            if (cls == pcCan)
            {
                out.num<uint8_t>(static_cast<const lib::CanPayload&>(pl).getRtr(), "can.rtr");
                out.num(static_cast<const lib::CanPayload&>(pl).getCrc(), "can.crc");
            }
            else
            {
                const auto& fd = static_cast<const lib::CanFdPayload&>(pl);
                out.num<uint8_t>(fd.getRrs(), "canfd.rrs");
                out.num(fd.getCrc(), "canfd.crc");
                out.num(fd.getSbc(), "canfd.sbc");
                out.num<uint8_t>(fd.getSbcParity(), "canfd.sbcParity");
                out.num<uint8_t>(fd.getSbcSupport(), "canfd.sbcSupport");
            }
            sinkView(pl, p.getData(), p.getDataLength(), out, "can.data");
            break;
        }
        case pcLin:
        {
            const auto& p = static_cast<const lib::LinPayload&>(pl);
            out.num(p.getFlags(), "lin.flags");
            out.num(p.getLinId(), "lin.id");
            out.num(p.getParityBits(), "lin.parity");
            out.num(p.getChecksum(), "lin.checksum");
            sinkView(pl, p.getData(), p.getDataLength(), out, "lin.data");
            break;
        }
        case pcEthernet:
        {
            const auto& p = static_cast<const lib::EthernetPayload&>(pl);
            out.num(p.getFlags(), "ethernet.flags");
            sinkView(pl, p.getData(), p.getDataLength(), out, "ethernet.data");
            break;
        }
        case pcAnalog:
        {
            const auto& p = static_cast<const lib::AnalogPayload&>(pl);
            out.num(p.getFlags(), "analog.flags");
            out.num<uint8_t>(static_cast<uint8_t>(p.getUnit()), "analog.unit");
            out.num(p.getSampleInterval(), "analog.interval");
            out.num(p.getSampleOffset(), "analog.offset");
            out.num(p.getSampleScalar(), "analog.scalar");
            size_t sample = p.getSampleDt() == lib::AnalogPayload::SampleDt::aInt16 ? 2 : 4;
            sinkView(pl, p.getData(), p.getSamplesCount() * sample, out, "analog.samples");
            break;
        }
        case pcCm:
        {
            const auto& p = static_cast<const lib::CaptureModulePayload&>(pl);
            out.num(p.getUptime(), "cm.uptime");
            out.num(p.getGmIdentity(), "cm.gmIdentity");
            out.num(p.getGmClockQuality(), "cm.gmClockQuality");
            out.num(p.getCurrentUtcOffset(), "cm.utcOffset");
            out.num(p.getTimeSource(), "cm.timeSource");
            out.num(p.getDomainNumber(), "cm.domainNumber");
            out.num(p.getGptpFlags(), "cm.gptpFlags");
            auto d = p.getDeviceDescription();
            sinkView(pl, d.data(), d.size(), out, "cm.deviceDescription");
            auto sn = p.getSerialNumber();
            sinkView(pl, sn.data(), sn.size(), out, "cm.serialNumber");
            auto h = p.getHardwareVersion();
            sinkView(pl, h.data(), h.size(), out, "cm.hardwareVersion");
            auto w = p.getSoftwareVersion();
            sinkView(pl, w.data(), w.size(), out, "cm.softwareVersion");
            sinkView(pl, p.getVendorData(), p.getVendorDataLength(), out, "cm.vendorData");
            auto v = p.getVendorDataStringView();
            sinkView(pl, v.data(), v.size(), out, "cm.vendorDataStringView");
            break;
        }
        case pcIf:
        {
            const auto& p = static_cast<const lib::InterfacePayload&>(pl);
            out.num(p.getInterfaceId(), "if.interfaceId");
            out.num(p.getMsgTotalRx(), "if.msgTotalRx");
            out.num(p.getMsgTotalTx(), "if.msgTotalTx");
            out.num(p.getMsgDroppedRx(), "if.msgDroppedRx");
            out.num(p.getMsgDroppedTx(), "if.msgDroppedTx");
            out.num(p.getErrorsTotalRx(), "if.errorsTotalRx");
            out.num(p.getErrorsTotalTx(), "if.errorsTotalTx");
            out.num(p.getInterfaceType(), "if.interfaceType");
            out.num<uint8_t>(static_cast<uint8_t>(p.getInterfaceStatus()), "if.interfaceStatus");
            out.num(p.getFeatureSupportBitmask(), "if.featureSupportBitmask");
            sinkView(pl, p.getStreamIds(), p.getStreamIdsCount(), out, "if.streamIds");
            sinkView(pl, p.getVendorData(), p.getVendorDataLength(), out, "if.vendorData");
            break;
        }
        default:
            break;
    }
}

// A frame of 1..3 unsegmented messages with typed payloads that the validators accept, laid out by the independent builders;
// capture-module payloads also in the un-padded form the library's validator accepts (arbitrary, also odd, length prefixes and a
// payload that ends right behind the last field).
inline rc::Gen<FrameRecipe> genTypedFrame()
{
    return rc::gen::exec([]() {
        FrameRecipe f;
        f.kind = 0;
        f.version = *rc::gen::element<uint8_t>(1, 2);
        f.dev = *anyInt<uint16_t>();
        f.stream = *anyInt<uint8_t>();
        f.seq = *anyInt<uint16_t>();
        PacketRecipe r;
        r.kind = *rc::gen::element<uint8_t>(rkCan, rkCanFd, rkLin, rkEthernet, rkAnalog, rkCmStatus, rkCmStatus, rkIfStatus);
        f.msgType = r.messageType();
        int n = *range<int>(1, 3);
        for (int i = 0; i < n; ++i)
        {
            r.seed = *rc::gen::arbitrary<uint32_t>();
            r.len = *range<uint32_t>(0, std::min<uint32_t>(40, PacketRecipe::maxLen(r.kind)));
            MsgRecipe m;
            m.ptype = r.payloadTypeByte();
            m.ts = *anyInt<uint64_t>();
            m.idWord = *anyInt<uint32_t>();
            m.flags = *rc::gen::element<uint8_t>(0, 0x03, 0x33);
            m.useBytes = 1;
            if (r.kind == rkCmStatus && *range<int>(0, 1) == 0)
            {
                Bytes b = fillBytes(r.seed, wire::kCmStatusHeader);
                for (int k = 0; k < 5; ++k)
                {
                    uint16_t l = *range<uint16_t>(0, 7);
                    b.push_back(0);
                    b.push_back(static_cast<uint8_t>(l));
                    Bytes field = fillBytes(r.seed + static_cast<uint32_t>(k) + 1, l);
                    b.insert(b.end(), field.begin(), field.end());
                }
                m.bytes = b;
            }
            else
                m.bytes = oracleBytes(r, deriveFields(r));
            // one typed payload in five carries a 16-bit inner length / count at the top of its range (sums with small constants wrap
            // there) followed by zeros that read as "nothing more": a validator has to reject it, and what the decoder hands out for it
            // must not depend on memory behind the payload
            if (*range<int>(0, 4) == 0 && (r.kind == rkIfStatus || r.kind == rkCmStatus || r.kind == rkEthernet))
            {
                const uint16_t top = *rc::gen::element<uint16_t>(0xFFFF, 0xFFFF, 0xFFFE, 0xFFFD, 0xFFFC);
                if (r.kind == rkEthernet)
                {
                    if (m.bytes.size() >= 6)
                        wire::set16(m.bytes.data() + 4, top);
                }
                else
                {
                    const size_t hs = r.kind == rkIfStatus ? wire::kIfStatusHeader : wire::kCmStatusHeader;
                    if (m.bytes.size() >= hs)
                    {
                        m.bytes.resize(hs);
                        int lead = r.kind == rkCmStatus ? *range<int>(0, 4) : 0;  // empty fields before the wrapped one
                        for (int k = 0; k < lead; ++k)
                        {
                            m.bytes.push_back(0);
                            m.bytes.push_back(0);
                        }
                        m.bytes.push_back(static_cast<uint8_t>(top >> 8));
                        m.bytes.push_back(static_cast<uint8_t>(top));
                        m.bytes.insert(m.bytes.end(), *range<size_t>(2, 12), 0);
                    }
                }
            }
            f.msgs.push_back(m);
        }
        return f;
    });
}

inline lib::Payload buildByClass(const BuilderStep& s, lib::CanPayload& can, lib::CanFdPayload& canFd, lib::LinPayload& lin, lib::EthernetPayload& eth,
                                 lib::AnalogPayload& analog, lib::CaptureModulePayload& cm, lib::InterfacePayload& ifp)
{
    PacketRecipe r;
    static const uint8_t kinds[] = {rkCan, rkCanFd, rkLin, rkEthernet, rkAnalog, rkCmStatus, rkIfStatus};
    r.kind = kinds[s.cls % 7];
    r.seed = s.seed;
    r.len = std::min<uint32_t>(s.len, PacketRecipe::maxLen(r.kind));
    RecipeFields f = deriveFields(r);
    static const uint8_t dummy = 0;
    auto ptr = [&](const Bytes& b) { return b.empty() ? &dummy : b.data(); };
    // reused objects: shrink-then-grow setData on the same buffer
    switch (r.kind)
    {
        case rkCan:
            can.setId(f.can.idWord & 0x1FFFFFFF);
            can.setData(ptr(f.data), static_cast<uint8_t>(f.data.size()));
            return can;
        case rkCanFd:
            canFd.setCrc(f.can.crcWord & 0x1FFFFF);
            canFd.setData(ptr(f.data), static_cast<uint8_t>(f.data.size()));
            return canFd;
        case rkLin:
            lin.setLinId(f.lin.pid & 0x3F);
            lin.setData(ptr(f.data), static_cast<uint8_t>(f.data.size()));
            return lin;
        case rkEthernet:
            eth.setFlags(f.eth.flags);
            eth.setData(ptr(f.data), static_cast<uint16_t>(f.data.size()));
            return eth;
        case rkAnalog:
            analog.setSampleDt((f.analog.flags & 1) ? lib::AnalogPayload::SampleDt::aInt32 : lib::AnalogPayload::SampleDt::aInt16);
            analog.setData(ptr(f.data), f.data.size());
            return analog;
        case rkCmStatus:
            cm.setUptime(f.cm.uptime);
            if (s.seed & 1)
            {
                UnterminatedViews uv(f.str);
                cm.setData(uv.view[0], uv.view[1], uv.view[2], uv.view[3], f.vendor);
            }
            else
                cm.setData(f.str[0], f.str[1], f.str[2], f.str[3], f.vendor);
            return cm;
        default:
            ifp.setInterfaceId(f.ifs.interfaceId);
            ifp.setData(ptr(f.streamIds), static_cast<uint16_t>(f.streamIds.size()), ptr(f.vendor), static_cast<uint16_t>(f.vendor.size()));
            return ifp;
    }
}

// Objects with a history from which a workload's own objects are copy-constructed (C19: a copy is a separate instance; whatever a
// class shares between an object and its copies is shared between threads).  Built once, on the main thread, and only read afterwards.
struct Prototypes
{
    lib::Encoder enc;
    lib::Decoder dec;
    lib::Status status;
};

// UseProto = false (C20, and every caller without prototypes) never instantiates a copy of a library object
template <bool UseProto, class D>
D protoOrFresh(const D* src)
{
    if constexpr (UseProto)
    {
        if (src)
            return D(*src);
    }
    (void) src;
    return D();
}

template <bool UseProto>
inline void runWorkloadT(const Workload& w, OutputSink& out, const Prototypes* proto)
{
    switch (w.kind)
    {
        case 0:
        case 5:
        {
            lib::Encoder enc = protoOrFresh<UseProto, lib::Encoder>(proto ? &proto->enc : nullptr);
            lib::Decoder dec = protoOrFresh<UseProto, lib::Decoder>(proto ? &proto->dec : nullptr);
            // a quarter of the encoder workloads never configure the ids: what a fresh encoder starts with must not depend on what else
            // happened in the process
            if (!w.enc.empty() && w.enc[0].dev % 4 != 3)
            {
                enc.setDeviceId(w.enc[0].dev);
                enc.setStreamId(w.enc[0].stream);
            }
            for (const auto& c : w.enc)
            {
                auto batch = buildBatch(c);
                auto frames = encodeVia(enc, batch, lib::DataContext{c.minB, c.maxB}, c.overload);
                out.num(enc.getSequenceCounter(), "encoder.sequenceCounter");
                for (const auto& f : frames)
                {
                    out.num<uint32_t>(static_cast<uint32_t>(f.size()), "frame.size");
                    out.put(f.data(), f.size(), "frame.bytes");
                    if (w.kind == 5)
                        for (const auto& p : dec.decode(f.data(), f.size()))
                        {
                            sinkPacket(*p, out);
                            sinkTyped(*p, out);
                        }
                }
            }
            break;
        }
        case 1:
        {
            lib::Decoder dec = protoOrFresh<UseProto, lib::Decoder>(proto ? &proto->dec : nullptr);
            for (const auto& f : w.hist.frames)
            {
                Bytes b = f.build();
                auto got = decodeOwned(dec, b);
                out.num<uint32_t>(static_cast<uint32_t>(got.size()), "decode.count");
                for (const auto& p : got)
                {
                    sinkPacket(*p, out);
                    sinkTyped(*p, out);
                }
            }
            break;
        }
        case 2:
        {
            for (const auto& r : w.tecmp)
            {
                Bytes b = r.build();
                uint8_t* heap = static_cast<uint8_t*>(malloc(b.size() ? b.size() : 1));
                if (!b.empty())
                    memcpy(heap, b.data(), b.size());
                auto got = TECMP::Decoder::Decode(heap, b.size());
                free(heap);
                out.num<uint32_t>(static_cast<uint32_t>(got.size()), "tecmp.count");
                for (const auto& p : got)
                {
                    sinkPacket(*p, out);
                    sinkTyped(*p, out);
                }
            }
            break;
        }
        case 3:
        {
            lib::Status st = protoOrFresh<UseProto, lib::Status>(proto ? &proto->status : nullptr);
            for (size_t i = 0; i < w.status.size(); ++i)
            {
                const StatusOp& op = w.status[i];
                if (op.kind <= 2 || op.kind == 6)
                    st.update(makeStatusUpdate(op, i));
                else if (op.kind == 3)
                    st.removeDeviceById(op.dev);
                else if (op.kind == 4)
                {
                    size_t idx = st.getIndexByDeviceId(op.dev);
                    if (idx < st.getDeviceStatusCount())
                        st.getDeviceStatus(idx).removeInterfaceById(op.iface);
                }
                else
                    st.clear();
                out.num<uint32_t>(static_cast<uint32_t>(st.getDeviceStatusCount()), "status.deviceCount");
            }
            // order-independent digest of the final content
            std::map<uint16_t, uint64_t> perDevice;
            for (size_t i = 0; i < st.getDeviceStatusCount(); ++i)
            {
                OutputSink sub;
                sub.inspect = out.inspect;
                const auto& ds = st.getDeviceStatus(i);
                sinkPacket(ds.getPacket(), sub);
                std::map<uint32_t, uint64_t> perIf;
                for (size_t j = 0; j < ds.getInterfaceStatusCount(); ++j)
                {
                    OutputSink s2;
                    s2.inspect = out.inspect;
                    sinkPacket(ds.getInterfaceStatus(j).getPacket(), s2);
                    perIf[ds.getInterfaceStatus(j).getInterfaceId()] = s2.digest;
                }
                for (const auto& kv : perIf)
                {
                    sub.num(kv.first, "status.interfaceId");
                    sub.num(kv.second, "status.interfaceDigest");
                }
                perDevice[ds.getPacket().getDeviceId()] = sub.digest;
            }
            for (const auto& kv : perDevice)
            {
                out.num(kv.first, "status.deviceId");
                out.num(kv.second, "status.deviceDigest");
            }
            break;
        }
        default:
        {
            lib::CanPayload can;
            lib::CanFdPayload canFd;
            lib::LinPayload lin;
            lib::EthernetPayload eth;
            lib::AnalogPayload analog;
            lib::CaptureModulePayload cm;
            lib::InterfacePayload ifp;
            for (const auto& s : w.builders)
            {
                lib::Payload pl = buildByClass(s, can, canFd, lin, eth, analog, cm, ifp);
                out.num(pl.getType().getType(), "built.type");
                out.put(pl.getRawPayload(), pl.getLength(), "built.bytes");
            }
            break;
        }
    }
}

inline void runWorkload(const Workload& w, OutputSink& out)
{
    runWorkloadT<false>(w, out, nullptr);
}

inline rc::Gen<Workload> genWorkload(int tier)
{
    return rc::gen::exec([tier]() {
        Workload w;
        w.kind = *range<uint8_t>(0, 5);
        switch (w.kind)
        {
            case 0:
            case 5:
            {
                EncGenParams p;
                p.maxBatch = 5;
                p.frameBudget = 300;
                p.allowEmpty = true;
                int n = *range<int>(1, 3);
                for (int i = 0; i < n; ++i)
                {
                    EncCase c = *genEncCase(p);
                    c.overload = *range<uint8_t>(0, 3);
                    // a quarter of the batches hold a packet with a zero-length payload (it can open a frame without a message)
                    if (*range<int>(0, 3) == 0)
                    {
                        PacketRecipe z;
                        z.kind = rkGeneric;
                        z.msgType = *rc::gen::element<uint8_t>(1, 2, 3, 0xFF);
                        z.ptype = *rc::gen::element<uint8_t>(0x01, 0x20, 0xFF);
                        z.len = 0;
                        z.emptyPayload = 1;
                        c.packets.insert(c.packets.begin() + static_cast<std::ptrdiff_t>(*range<size_t>(0, c.packets.size())), z);
                    }
                    w.enc.push_back(c);
                }
                break;
            }
            case 1:
            {
                HistoryGenParams p;
                p.maxFrames = tier ? 40 : 20;
                p.bigSegmentHistories = 12;
                p.manyEndpoints = 4;  // a quarter of the decoder workloads keep 60..1030 messages in progress at once
                w.hist = *genFrameHistory(p);
                // a third of the histories end with a complete three-segment message of a sender that pads its frames: each segment is
                // followed by zeros up to a minimum frame size (what is reassembled are the declared bytes, nothing of the room behind them)
                if (*range<int>(0, 2) == 0)
                {
                    uint16_t seq = *anyInt<uint16_t>();
                    for (int part = 0; part < 3; ++part)
                    {
                        FrameRecipe f;
                        f.dev = 0x5151;
                        f.stream = 0x51;
                        f.seq = seq++;
                        MsgRecipe m = genMsg(static_cast<uint8_t>(part + 1), 30);
                        m.len = *range<uint32_t>(1, 30);
                        f.msgs.push_back(m);
                        f.trailing.assign(*range<size_t>(1, 40), 0);
                        w.hist.frames.push_back(f);
                    }
                }
                // two thirds of the histories also hold frames with typed payloads the validators accept
                if (*range<int>(0, 2) != 0)
                {
                    int k = *range<int>(1, 4);
                    for (int i = 0; i < k; ++i)
                    {
                        size_t at = *range<size_t>(0, w.hist.frames.size());
                        w.hist.frames.insert(w.hist.frames.begin() + static_cast<std::ptrdiff_t>(at), *genTypedFrame());
                    }
                }
                break;
            }
            case 2:
            {
                int n = *range<int>(1, 8);
                for (int i = 0; i < n; ++i)
                {
                    TecmpRecipe r;
                    r.device = *anyInt<uint8_t>();
                    r.interfaceId = *anyInt<uint32_t>();
                    r.timestamp = *anyInt<uint64_t>();
                    r.seed = *rc::gen::arbitrary<uint32_t>();
                    int shape = *range<int>(0, 4);
                    switch (shape)
                    {
                        case 0:
                        case 1:
                            r.msgType = 3, r.dataType = shape == 0 ? 2 : 3, r.kind = 0, r.arbId = *anyInt<uint32_t>() & 0x9FFFFFFFu;
                            r.data = *bytesOfLen(*range<size_t>(0, shape == 0 ? 8 : 64));
                            if (*range<int>(0, 1))
                                r.trailer = *bytesOfLen(3);
                            break;
                        case 2:
                            r.msgType = 3, r.dataType = 4, r.kind = 1, r.pid = *anyInt<uint8_t>();
                            r.data = *bytesOfLen(*range<size_t>(0, 8));
                            if (*range<int>(0, 1))
                                r.trailer = *bytesOfLen(1);  // half of the LIN frames end right after the data (no checksum byte)
                            break;
                        case 3:
                            r.msgType = 1, r.dataType = 0, r.kind = 2;
                            if (*range<int>(0, 3) == 0)
                                r.trailer = *bytesOfLen(*range<size_t>(1, 6));
                            break;
                        default:
                            r.msgType = 2, r.dataType = 0, r.kind = 3, r.entries = *range<uint16_t>(0, 9);
                            // a third of the bus status messages end with 1..11 bytes that are not a complete 12-byte entry
                            if (*range<int>(0, 2) == 0)
                                r.trailer = *bytesOfLen(*range<size_t>(1, 11));
                            break;
                    }
                    // one frame in six is followed by bytes beyond the TECMP payload (padding of a short Ethernet frame)
                    if (*range<int>(0, 5) == 0)
                        r.extra = *bytesOfLen(*range<size_t>(1, 10));
                    w.tecmp.push_back(r);
                }
                break;
            }
            case 3:
            {
                int n = *range<int>(1, 30);
                for (int i = 0; i < n; ++i)
                {
                    StatusOp op;
                    op.kind = *rc::gen::weightedElement<uint8_t>({{5, 0}, {8, 1}, {2, 2}, {2, 3}, {2, 4}, {1, 5}, {2, 6}});
                    op.dev = *rc::gen::element<uint16_t>(0, 1, 2);
                    op.iface = *rc::gen::element<uint32_t>(0, 1, 2);
                    op.viaDecoder = *range<uint8_t>(0, 1);
                    op.content = *rc::gen::weightedElement<uint8_t>({{6, 0}, {2, 1}, {1, 2}, {1, 3}});
                    w.status.push_back(op);
                }
                break;
            }
            default:
            {
                int n = *range<int>(1, 12);
                for (int i = 0; i < n; ++i)
                {
                    BuilderStep s;
                    s.cls = *rc::gen::weightedElement<uint8_t>({{1, 0}, {1, 1}, {1, 2}, {1, 3}, {1, 4}, {3, 5}, {3, 6}});
                    s.seed = *rc::gen::arbitrary<uint32_t>();
                    s.len = *rc::gen::weightedOneOf<uint32_t>({{4, range<uint32_t>(0, 20)}, {1, range<uint32_t>(0, 300)}});
                    w.builders.push_back(s);
                }
                break;
            }
        }
        return w;
    });
}

}  // namespace vf
